import MythVerif.Proofs.WsQueueTsoBnd
/-! Preservation of the bounds invariant `Bnd` (generated per program counter): participant at pk1, pk2, pk3, wq0, wq1, wtl. -/
namespace MythVerif.WsqTso
open MythVerif.Wsq

theorem bT_pk1 (s s' : St) (p : Pid) : Inv s → Inv s' → Bnd s → s.tpc p = .pk1 → stepT s p = some s' → Bnd s' := by
  intro h h' hb hpc hs
  have hcfg := h.cfg
  have hview := thief_views s h p
  have a6 := h'.tp2; have a7 := h'.tk3; have a8 := h'.vk3
  have b1 := h.tk2 p; have b2 := h.vk2 p; have b3 := hb.pk2 p; have b4 := hb.pk3 p
  have hbufE := h.tbufE p
  have hvb : s.bufT p = [] → viewBase (s.bufT p) s.base = s.base ∧ viewTop (s.bufT p) s.top = s.top := by
    intro h0; rw [h0]; exact ⟨rfl, rfl⟩
  simp only [stepT, hpc, releaseT, fenceOk, hcfg, code_unlockFence, code_takeFence, code_wtakeFence, code_wpeekFence, if_true] at hs
  all_goals (try split at hs)
  all_goals (try split at hs)
  all_goals (try simp at hs)
  all_goals (try (first | (subst hs; exact hb) | subst hs))
  all_goals (
    tso_coreT h []
    bnd_core hb
    constructor
    all_goals (bnd_pick hb; rename_i hold)
    all_goals (first | exact hold | (
      (try simp only [upd_apply, applySto] at hold ⊢)
      first | assumption | (intros; contradiction) | (intro q; if hq : q = p then (subst hq; simp only [if_true]; intros; contradiction) else (simp only [if_neg hq]; exact hold q)) | grind [thiefLocked, mayBuf, notTrans, thiefFlight, popWin, rcOff_bnd, Rc1Shape, Rc2Shape, RcPre, RcShape, InsShape, Pu2Shape, CarryShape] | (intro q; by_cases hqp : q = p <;> simp [hqp] <;> grind [thiefLocked, mayBuf, notTrans, thiefFlight, popWin, rcOff_bnd, Rc1Shape, Rc2Shape, RcPre, RcShape, InsShape, Pu2Shape, CarryShape]) | skip)))

theorem bT_pk2 (s s' : St) (p : Pid) (b) : Inv s → Inv s' → Bnd s → s.tpc p = .pk2 b → stepT s p = some s' → Bnd s' := by
  intro h h' hb hpc hs
  have hcfg := h.cfg
  have hview := thief_views s h p
  have hbc := hb.pk2 p
  have a6 := h'.tp2; have a7 := h'.tk3; have a8 := h'.vk3
  have b1 := h.tk2 p; have b2 := h.vk2 p; have b3 := hb.pk2 p; have b4 := hb.pk3 p
  have hbufE := h.tbufE p
  have hvb : s.bufT p = [] → viewBase (s.bufT p) s.base = s.base ∧ viewTop (s.bufT p) s.top = s.top := by
    intro h0; rw [h0]; exact ⟨rfl, rfl⟩
  simp only [stepT, hpc, releaseT, fenceOk, hcfg, code_unlockFence, code_takeFence, code_wtakeFence, code_wpeekFence, if_true] at hs
  all_goals (try split at hs)
  all_goals (try split at hs)
  all_goals (try simp at hs)
  all_goals (try (first | (subst hs; exact hb) | subst hs))
  all_goals (
    tso_coreT h []
    bnd_core hb
    constructor
    all_goals (bnd_pick hb; rename_i hold)
    all_goals (first | exact hold | (
      (try simp only [upd_apply, applySto] at hold ⊢)
      first | assumption | (intros; contradiction) | (intro q; if hq : q = p then (subst hq; simp only [if_true]; intros; contradiction) else (simp only [if_neg hq]; exact hold q)) | grind [thiefLocked, mayBuf, notTrans, thiefFlight, popWin, rcOff_bnd, Rc1Shape, Rc2Shape, RcPre, RcShape, InsShape, Pu2Shape, CarryShape] | (intro q; by_cases hqp : q = p <;> simp [hqp] <;> grind [thiefLocked, mayBuf, notTrans, thiefFlight, popWin, rcOff_bnd, Rc1Shape, Rc2Shape, RcPre, RcShape, InsShape, Pu2Shape, CarryShape]) | skip)))

theorem bT_pk3 (s s' : St) (p : Pid) (b) : Inv s → Inv s' → Bnd s → s.tpc p = .pk3 b → stepT s p = some s' → Bnd s' := by
  intro h h' hb hpc hs
  have hcfg := h.cfg
  have hview := thief_views s h p
  have hbc := hb.pk3 p
  have a6 := h'.tp2; have a7 := h'.tk3; have a8 := h'.vk3
  have b1 := h.tk2 p; have b2 := h.vk2 p; have b3 := hb.pk2 p; have b4 := hb.pk3 p
  have hbufE := h.tbufE p
  have hvb : s.bufT p = [] → viewBase (s.bufT p) s.base = s.base ∧ viewTop (s.bufT p) s.top = s.top := by
    intro h0; rw [h0]; exact ⟨rfl, rfl⟩
  simp only [stepT, hpc, releaseT, fenceOk, hcfg, code_unlockFence, code_takeFence, code_wtakeFence, code_wpeekFence, if_true] at hs
  all_goals (try split at hs)
  all_goals (try split at hs)
  all_goals (try simp at hs)
  all_goals (try (first | (subst hs; exact hb) | subst hs))
  all_goals (
    tso_coreT h []
    bnd_core hb
    constructor
    all_goals (bnd_pick hb; rename_i hold)
    all_goals (first | exact hold | (
      (try simp only [upd_apply, applySto] at hold ⊢)
      first | assumption | (intros; contradiction) | (intro q; if hq : q = p then (subst hq; simp only [if_true]; intros; contradiction) else (simp only [if_neg hq]; exact hold q)) | grind [thiefLocked, mayBuf, notTrans, thiefFlight, popWin, rcOff_bnd, Rc1Shape, Rc2Shape, RcPre, RcShape, InsShape, Pu2Shape, CarryShape] | (intro q; by_cases hqp : q = p <;> simp [hqp] <;> grind [thiefLocked, mayBuf, notTrans, thiefFlight, popWin, rcOff_bnd, Rc1Shape, Rc2Shape, RcPre, RcShape, InsShape, Pu2Shape, CarryShape]) | skip)))

theorem bT_wq0 (s s' : St) (p : Pid) : Inv s → Inv s' → Bnd s → s.tpc p = .wq0 → stepT s p = some s' → Bnd s' := by
  intro h h' hb hpc hs
  have hcfg := h.cfg
  have hview := thief_views s h p
  have a6 := h'.tp2; have a7 := h'.tk3; have a8 := h'.vk3
  have b1 := h.tk2 p; have b2 := h.vk2 p; have b3 := hb.pk2 p; have b4 := hb.pk3 p
  have hbufE := h.tbufE p
  have hvb : s.bufT p = [] → viewBase (s.bufT p) s.base = s.base ∧ viewTop (s.bufT p) s.top = s.top := by
    intro h0; rw [h0]; exact ⟨rfl, rfl⟩
  simp only [stepT, hpc, releaseT, fenceOk, hcfg, code_unlockFence, code_takeFence, code_wtakeFence, code_wpeekFence, if_true] at hs
  all_goals (try split at hs)
  all_goals (try split at hs)
  all_goals (try simp at hs)
  all_goals (try (first | (subst hs; exact hb) | subst hs))
  all_goals (
    tso_coreT h []
    bnd_core hb
    constructor
    all_goals (bnd_pick hb; rename_i hold)
    all_goals (first | exact hold | (
      (try simp only [upd_apply, applySto] at hold ⊢)
      first | assumption | (intros; contradiction) | (intro q; if hq : q = p then (subst hq; simp only [if_true]; intros; contradiction) else (simp only [if_neg hq]; exact hold q)) | grind [thiefLocked, mayBuf, notTrans, thiefFlight, popWin, rcOff_bnd, Rc1Shape, Rc2Shape, RcPre, RcShape, InsShape, Pu2Shape, CarryShape] | (intro q; by_cases hqp : q = p <;> simp [hqp] <;> grind [thiefLocked, mayBuf, notTrans, thiefFlight, popWin, rcOff_bnd, Rc1Shape, Rc2Shape, RcPre, RcShape, InsShape, Pu2Shape, CarryShape]) | skip)))

theorem bT_wq1 (s s' : St) (p : Pid) (t) : Inv s → Inv s' → Bnd s → s.tpc p = .wq1 t → stepT s p = some s' → Bnd s' := by
  intro h h' hb hpc hs
  have hcfg := h.cfg
  have hview := thief_views s h p
  have a6 := h'.tp2; have a7 := h'.tk3; have a8 := h'.vk3
  have b1 := h.tk2 p; have b2 := h.vk2 p; have b3 := hb.pk2 p; have b4 := hb.pk3 p
  have hbufE := h.tbufE p
  have hvb : s.bufT p = [] → viewBase (s.bufT p) s.base = s.base ∧ viewTop (s.bufT p) s.top = s.top := by
    intro h0; rw [h0]; exact ⟨rfl, rfl⟩
  simp only [stepT, hpc, releaseT, fenceOk, hcfg, code_unlockFence, code_takeFence, code_wtakeFence, code_wpeekFence, if_true] at hs
  all_goals (try split at hs)
  all_goals (try split at hs)
  all_goals (try simp at hs)
  all_goals (try (first | (subst hs; exact hb) | subst hs))
  all_goals (
    tso_coreT h []
    bnd_core hb
    constructor
    all_goals (bnd_pick hb; rename_i hold)
    all_goals (first | exact hold | (
      (try simp only [upd_apply, applySto] at hold ⊢)
      first | assumption | (intros; contradiction) | (intro q; if hq : q = p then (subst hq; simp only [if_true]; intros; contradiction) else (simp only [if_neg hq]; exact hold q)) | grind [thiefLocked, mayBuf, notTrans, thiefFlight, popWin, rcOff_bnd, Rc1Shape, Rc2Shape, RcPre, RcShape, InsShape, Pu2Shape, CarryShape] | (intro q; by_cases hqp : q = p <;> simp [hqp] <;> grind [thiefLocked, mayBuf, notTrans, thiefFlight, popWin, rcOff_bnd, Rc1Shape, Rc2Shape, RcPre, RcShape, InsShape, Pu2Shape, CarryShape]) | skip)))

theorem bT_wtl (s s' : St) (p : Pid) : Inv s → Inv s' → Bnd s → s.tpc p = .wtl → stepT s p = some s' → Bnd s' := by
  intro h h' hb hpc hs
  have hcfg := h.cfg
  have hview := thief_views s h p
  have a6 := h'.tp2; have a7 := h'.tk3; have a8 := h'.vk3
  have b1 := h.tk2 p; have b2 := h.vk2 p; have b3 := hb.pk2 p; have b4 := hb.pk3 p
  have hbufE := h.tbufE p
  have hvb : s.bufT p = [] → viewBase (s.bufT p) s.base = s.base ∧ viewTop (s.bufT p) s.top = s.top := by
    intro h0; rw [h0]; exact ⟨rfl, rfl⟩
  simp only [stepT, hpc, releaseT, fenceOk, hcfg, code_unlockFence, code_takeFence, code_wtakeFence, code_wpeekFence, if_true] at hs
  all_goals (try split at hs)
  all_goals (try split at hs)
  all_goals (try simp at hs)
  all_goals (try (first | (subst hs; exact hb) | subst hs))
  all_goals (
    tso_coreT h []
    bnd_core hb
    constructor
    all_goals (bnd_pick hb; rename_i hold)
    all_goals (first | exact hold | (
      (try simp only [upd_apply, applySto] at hold ⊢)
      first | assumption | (intros; contradiction) | (intro q; if hq : q = p then (subst hq; simp only [if_true]; intros; contradiction) else (simp only [if_neg hq]; exact hold q)) | grind [thiefLocked, mayBuf, notTrans, thiefFlight, popWin, rcOff_bnd, Rc1Shape, Rc2Shape, RcPre, RcShape, InsShape, Pu2Shape, CarryShape] | (intro q; by_cases hqp : q = p <;> simp [hqp] <;> grind [thiefLocked, mayBuf, notTrans, thiefFlight, popWin, rcOff_bnd, Rc1Shape, Rc2Shape, RcPre, RcShape, InsShape, Pu2Shape, CarryShape]) | skip)))

end MythVerif.WsqTso
