import MythVerif.Proofs.PiDagPruneCopy
/-! The node array `dr_pi_dag_copy_and_prune_nodes` produces from a laid-out DAG is the layout of the
pruned tree (the sections / tasks that do not copy their children collapsed), and the pruned tree
has the recorder's shape again; hence the converted DAG is well formed. -/
namespace MythVerif.PiDag
open MythVerif.DagRec

mutual
/-- the tree after the conversion-time contraction; `kp g` = the group at slot `g` keeps its children -/
def pruneT (kp : Nat → Bool) : DNode → Nat → Nat → DNode
  | .ival i, _, _ => .ival i
  | .create i ch, _, base => .create i (pruneT kp ch base (base + 1))
  | .group i ds, idx, base => if kp idx then .group i (pruneTL kp ds base (base + ds.length)) else .group i .nil
def pruneTL (kp : Nat → Bool) : DList → Nat → Nat → DList
  | .nil, _, _ => .nil
  | .cons d r, k, base => .cons (pruneT kp d k base) (pruneTL kp r (k + 1) (base + descT d))
end

theorem pruneTL_length (kp : Nat → Bool) : ∀ (ds : DList) (k base : Nat), (pruneTL kp ds k base).length = ds.length
  | .nil, _, _ => rfl
  | .cons d r, k, base => by simp [pruneTL, DList.length, pruneTL_length kp r]

/-! ### the shape is kept -/

theorem pruneTL_isNil (kp : Nat → Bool) (ds : DList) (k base : Nat) : (pruneTL kp ds k base).isNil = ds.isNil := by
  cases ds <;> rfl

mutual
theorem pruneT_gram (kp : Nat → Bool) : ∀ (d : DNode) (idx base : Nat) (b : Bool),
    (gItem b d = true → gItem b (pruneT kp d idx base) = true) ∧
    (gLast b d = true → gLast b (pruneT kp d idx base) = true) ∧
    (gTask d = true → gTask (pruneT kp d idx base) = true)
  | .ival i, idx, base, b => by simp [pruneT]
  | .create i ch, idx, base, b => by
    have ih := pruneT_gram kp ch base (base + 1) b
    simp only [pruneT, gItem, gLast, gTask, Bool.and_eq_true]
    exact ⟨fun h => ⟨h.1, ih.2.2 h.2⟩, fun h => h, fun h => h⟩
  | .group i ds, idx, base, b => by
    have key : ∀ (k : NKind) (bb : Bool), gGroup k bb i ds = true →
        ∃ ds', pruneT kp (.group i ds) idx base = .group i ds' ∧ gGroup k bb i ds' = true := by
      intro k bb h
      simp only [pruneT]
      split
      · refine ⟨_, rfl, ?_⟩
        simp only [gGroup, Bool.and_eq_true, Bool.or_eq_true] at h ⊢
        refine ⟨h.1, ?_⟩
        rcases h.2 with h2 | h2
        · left; rw [pruneTL_isNil]; exact h2
        · right; exact pruneTL_gram kp ds _ _ bb h2
      · refine ⟨_, rfl, ?_⟩
        simp only [gGroup, Bool.and_eq_true] at h ⊢
        exact ⟨h.1, by simp [DList.isNil]⟩
    refine ⟨?_, by simp [gLast], ?_⟩
    · intro h
      rw [gItem_group] at h
      obtain ⟨ds', e, hj⟩ := key _ _ h
      rw [e, gItem_group]; exact hj
    · intro h
      rw [gTask_group] at h
      obtain ⟨ds', e, hj⟩ := key _ _ h
      rw [e, gTask_group]; exact hj
theorem pruneTL_gram (kp : Nat → Bool) : ∀ (ds : DList) (k base : Nat) (b : Bool),
    gForest b ds = true → gForest b (pruneTL kp ds k base) = true
  | .nil, _, _, _, h => by simp [gForest] at h
  | .cons d .nil, k, base, b, h => by
    simp only [gForest] at h
    simp only [pruneTL, gForest]
    exact (pruneT_gram kp d k base b).2.1 h
  | .cons d (.cons d' r), k, base, b, h => by
    rw [gForest_cons2, Bool.and_eq_true] at h
    have h1 := (pruneT_gram kp d k base b).1 h.1
    have h2 := pruneTL_gram kp (.cons d' r) (k + 1) (base + descT d) b h.2
    rw [pruneTL]
    rw [pruneTL] at h2 ⊢
    rw [gForest_cons2, Bool.and_eq_true]
    exact ⟨h1, h2⟩
end

/-! ### the layout of the pruned tree -/

/-- `1` for a kept slot -/
def kf (map : Array Int) (j : Nat) : Nat := if (0 : Int) ≤ map[j]! then 1 else 0

theorem cntK_add (map : Array Int) (x m : Nat) : cntK map (x + m) = cntK map x + isum x m (kf map) := by
  have := isum_add 0 x m (kf map)
  simp only [Nat.zero_add] at this
  simpa [cntK, isum, kf] using this

theorem isum_all_one (map : Array Int) (k len : Nat) (h : ∀ c, k ≤ c → c < k + len → (0 : Int) ≤ map[c]!) :
    isum k len (kf map) = len := by
  induction len with
  | zero => rfl
  | succ len ih =>
    rw [isum_succ, ih (fun c h1 h2 => h c h1 (by omega))]
    simp [kf, h (k + len) (by omega) (by omega)]

theorem isum_all_zero (map : Array Int) (k len : Nat) (h : ∀ c, k ≤ c → c < k + len → ¬ (0 : Int) ≤ map[c]!) :
    isum k len (kf map) = 0 := by
  induction len with
  | zero => rfl
  | succ len ih =>
    rw [isum_succ, ih (fun c h1 h2 => h c h1 (by omega))]
    simp [kf, h (k + len) (by omega) (by omega)]

/-- what the two steps of the copy establish -/
structure PCtx (o : ShrinkOpts) (T : Array PNode) (map : Array Int) (T_ : Array PNode) : Prop where
  F : PFinal o T map
  get : ∀ j, j < T.size → (0 : Int) ≤ map[j]! →
    T_[cntK map j]!.info.c.kind = T[j]!.info.c.kind ∧ T_[cntK map j]!.a = (newAB T map j).1 ∧
      T_[cntK map j]!.b = (newAB T map j).2

theorem PCtx.toNat {o : ShrinkOpts} {T : Array PNode} {map : Array Int} {T_ : Array PNode} (P : PCtx o T map T_)
    (j : Nat) (hj : j < T.size) (hk : (0 : Int) ≤ map[j]!) : map[j]!.toNat = cntK map j := by
  rcases P.F.low j hj with h | h
  · rw [h] at hk; simp [mapNoCopy] at hk
  · rw [h]; simp

theorem ccT_create {o : ShrinkOpts} {T : Array PNode} {i : Info} {ch : DNode} {g b' : Nat}
    (hl : LayN T (.create i ch) g b') (hw : gW (.create i ch) = true) : ccT o T g = true := by
  simp only [LayN] at hl
  simp only [gW, Bool.and_eq_true] at hw
  simp [ccT, hl.1, hw.1.1]

theorem ccT_group {o : ShrinkOpts} {T : Array PNode} {i : Info} {ds : DList} {g b' : Nat}
    (hl : LayN T (.group i ds) g b') (hw : gW (.group i ds) = true) : ccT o T g = copyChildren o T[g]! := by
  obtain ⟨h1, _⟩ := group_kind_facts hl hw
  have : (T[g]!.info.c.kind == NKind.createTask) = false := by
    simp only [isGroupK, Bool.or_eq_true, beq_iff_eq] at h1
    rcases h1 with h | h <;> simp [h]
  simp [ccT, this, h1]

theorem newAB_create {T : Array PNode} {i : Info} {ch : DNode} {g b' : Nat} (map : Array Int)
    (hl : LayN T (.create i ch) g b') (hw : gW (.create i ch) = true) :
    (newAB T map g).1 = (map[b']!).toNat - (map[g]!).toNat := by
  simp only [LayN] at hl
  simp only [gW, Bool.and_eq_true] at hw
  simp [newAB, hl.1, hw.1.1, hl.2.1]

theorem newAB_group {T : Array PNode} {i : Info} {ds : DList} {g b' : Nat} (map : Array Int)
    (hl : LayN T (.group i ds) g b') (hw : gW (.group i ds) = true) :
    newAB T map g = if 0 < ds.length then
        (if map[b']! ≥ (0 : Int) then ((map[b']!).toNat - (map[g]!).toNat, (map[b' + ds.length - 1]!).toNat - (map[g]!).toNat + 1)
         else (0, 0))
      else (T[g]!.a, T[g]!.a) := by
  obtain ⟨h1, h2, h3, h4, _, _⟩ := group_kind_facts hl hw
  have hk : (T[g]!.info.c.kind == NKind.createTask) = false := by
    simp only [isGroupK, Bool.or_eq_true, beq_iff_eq] at h1
    rcases h1 with h | h <;> simp [h]
  simp only [newAB, hk, h1, Bool.false_eq_true, if_false, if_true]
  by_cases hlen : 0 < ds.length
  · have e := h2 hlen
    have : g + T[g]!.a < g + T[g]!.b := by omega
    rw [if_pos this, if_pos hlen, e]
    have : g + T[g]!.b - 1 = b' + ds.length - 1 := by omega
    rw [this]
  · have : ¬ g + T[g]!.a < g + T[g]!.b := by omega
    rw [if_neg this, if_neg hlen]
    have : T[g]!.b = T[g]!.a := by omega
    rw [this]

mutual
theorem layN_prune {o : ShrinkOpts} {T : Array PNode} {map : Array Int} {T_ : Array PNode} (P : PCtx o T map T_) :
    ∀ (d : DNode) (idx base : Nat), LayN T d idx base → gW d = true → idx < T.size → base + descT d ≤ T.size →
      ((0 : Int) ≤ map[idx]! →
        LayN T_ (pruneT (fun g => copyChildren o T[g]!) d idx base) (cntK map idx) (cntK map base) ∧
        isum base (descT d) (kf map) = descT (pruneT (fun g => copyChildren o T[g]!) d idx base)) ∧
      (¬ (0 : Int) ≤ map[idx]! → isum base (descT d) (kf map) = 0)
  | .ival i, idx, base, hl, hw, hi, hb => by
    refine ⟨fun hk => ⟨?_, rfl⟩, fun _ => rfl⟩
    simp only [pruneT, LayN] at hl ⊢
    rw [(P.get idx hi hk).1]; exact hl
  | .create i ch, idx, base, hl, hw, hi, hb => by
    have hcc := ccT_create (o := o) hl hw
    have hab := newAB_create map hl hw
    have hl' := hl
    simp only [LayN] at hl
    simp only [gW, Bool.and_eq_true] at hw
    simp only [descT] at hb
    have hind : ind T idx base = 1 := by
      rw [ind_eq_indT T base _ idx base hl' (by simp only [gW, Bool.and_eq_true]; exact hw)]
      simp [indT]
    have hrel := P.F.rel idx base hi (by omega) hind
    have ih := layN_prune P ch base (base + 1) hl.2.2.2 hw.2 (by omega) (by omega)
    have e1 : descT (.create i ch) = descT ch + 1 := by simp [descT]; omega
    constructor
    · intro hk
      have hkb : (0 : Int) ≤ map[base]! := hrel.mpr ⟨hk, hcc⟩
      obtain ⟨q1, q2⟩ := ih.1 hkb
      have hc1 : cntK map (base + 1) = cntK map base + 1 := by rw [cntK_succ, if_pos hkb]
      rw [hc1] at q1
      have hlt := cntK_lt map idx base hl.2.2.1 hk
      refine ⟨?_, ?_⟩
      · simp only [pruneT, LayN]
        obtain ⟨g1, g2, _⟩ := P.get idx hi hk
        refine ⟨by rw [g1]; exact hl.1, ?_, hlt, q1⟩
        rw [g2, hab, P.toNat base (by omega) hkb, P.toNat idx hi hk]
        omega
      · rw [e1, isum_succ_left, q2]
        simp only [pruneT, descT, kf, hkb, if_true]
    · intro hk
      have hkb : ¬ (0 : Int) ≤ map[base]! := fun h => hk (hrel.mp h).1
      rw [e1, isum_succ_left, ih.2 hkb]
      simp [kf, hkb]
  | .group i ds, idx, base, hl, hw, hi, hb => by
    have hcc := ccT_group (o := o) hl hw
    have hab := newAB_group map hl hw
    obtain ⟨h1, h2, h3, h4, h5, h6⟩ := group_kind_facts hl hw
    have hkind : T[idx]!.info.c.kind = i.c.kind := by simp only [LayN] at hl; exact hl.1
    have hdl := descL_eq ds
    simp only [descT] at hb
    have hrel : ∀ c, base ≤ c → c < base + ds.length →
        ((0 : Int) ≤ map[c]! ↔ ((0 : Int) ≤ map[idx]! ∧ copyChildren o T[idx]! = true)) := by
      intro c hc1 hc2
      have hind : ind T idx c = 1 := by
        rw [ind_eq_indT T c _ idx base hl hw]
        simp [indT, hc1, hc2]
      rw [← hcc]
      exact P.F.rel idx c hi (by omega) hind
    have e1 : descT (.group i ds) = ds.length + descS ds := hdl
    by_cases hk : (0 : Int) ≤ map[idx]!
    · refine ⟨fun _ => ?_, fun h => absurd hk h⟩
      obtain ⟨g1, g2, g3⟩ := P.get idx hi hk
      by_cases hkp : copyChildren o T[idx]! = true
      · -- the children are copied
        have hall : ∀ c, base ≤ c → c < base + ds.length → (0 : Int) ≤ map[c]! :=
          fun c hc1 hc2 => (hrel c hc1 hc2).mpr ⟨hk, hkp⟩
        have ih := (layL_prune P ds base (base + ds.length) h5 h6 (by omega) (by omega) true
          (fun c hc1 hc2 => by simp [hall c hc1 hc2])).1 rfl
        have hone := isum_all_one map base ds.length hall
        have hcb : cntK map (base + ds.length) = cntK map base + ds.length := by rw [cntK_add, hone]
        obtain ⟨q1, q2⟩ := ih
        rw [hcb] at q1
        simp only [pruneT, hkp, if_true]
        refine ⟨?_, ?_⟩
        · simp only [LayN, pruneTL_length]
          refine ⟨by rw [g1]; exact hkind, ?_, ?_, q1⟩
          · rw [g2, g3, hab]
            by_cases hlen : 0 < ds.length
            · have hb0 := hall base (by omega) (by omega)
              have hbl := hall (base + ds.length - 1) (by omega) (by omega)
              have hlt := cntK_lt map idx base (h4 hlen) hk
              have hc2 : cntK map (base + ds.length - 1) + 1 = cntK map (base + ds.length) := by
                have := cntK_succ map (base + ds.length - 1)
                rw [if_pos hbl, show base + ds.length - 1 + 1 = base + ds.length by omega] at this
                omega
              rw [if_pos hlen, if_pos (by omega)]
              simp only
              rw [P.toNat base (by omega) hb0, P.toNat idx hi hk, P.toNat _ (by omega) hbl]
              omega
            · rw [if_neg hlen]; simp only; omega
          · intro hlen
            have hb0 := hall base (by omega) (by omega)
            have hlt := cntK_lt map idx base (h4 hlen) hk
            rw [g2, hab, if_pos hlen, if_pos (by omega)]
            simp only
            rw [P.toNat base (by omega) hb0, P.toNat idx hi hk]
            omega
        · rw [e1, isum_add, hone, q2]
          simp only [descT]
          rw [descL_eq, pruneTL_length]
      · -- the children are dropped
        have hnone : ∀ c, base ≤ c → c < base + ds.length → ¬ (0 : Int) ≤ map[c]! :=
          fun c hc1 hc2 h => hkp ((hrel c hc1 hc2).mp h).2
        have ih := (layL_prune P ds base (base + ds.length) h5 h6 (by omega) (by omega) false
          (fun c hc1 hc2 => by simp [hnone c hc1 hc2])).2 rfl
        have hzero := isum_all_zero map base ds.length hnone
        simp only [pruneT, hkp, Bool.false_eq_true, if_false]
        refine ⟨?_, ?_⟩
        · simp only [LayN, DList.length, LayL, and_true]
          refine ⟨by rw [g1]; exact hkind, ?_, fun h => by omega⟩
          rw [g2, g3, hab]
          by_cases hlen : 0 < ds.length
          · have := hnone base (by omega) (by omega)
            rw [if_pos hlen, if_neg (by omega)]
          · rw [if_neg hlen]; simp
        · rw [e1, isum_add, hzero, ih]; rfl
    · refine ⟨fun h => absurd h hk, fun _ => ?_⟩
      have hnone : ∀ c, base ≤ c → c < base + ds.length → ¬ (0 : Int) ≤ map[c]! :=
        fun c hc1 hc2 h => hk ((hrel c hc1 hc2).mp h).1
      have ih := (layL_prune P ds base (base + ds.length) h5 h6 (by omega) (by omega) false
        (fun c hc1 hc2 => by simp [hnone c hc1 hc2])).2 rfl
      rw [e1, isum_add, isum_all_zero map base ds.length hnone, ih]
theorem layL_prune {o : ShrinkOpts} {T : Array PNode} {map : Array Int} {T_ : Array PNode} (P : PCtx o T map T_) :
    ∀ (ds : DList) (k base : Nat), LayL T ds k base → gWL ds = true → k + ds.length ≤ T.size →
      base + descS ds ≤ T.size → ∀ pk : Bool, (∀ c, k ≤ c → c < k + ds.length → ((0 : Int) ≤ map[c]! ↔ pk = true)) →
      (pk = true →
        LayL T_ (pruneTL (fun g => copyChildren o T[g]!) ds k base) (cntK map k) (cntK map base) ∧
        isum base (descS ds) (kf map) = descS (pruneTL (fun g => copyChildren o T[g]!) ds k base)) ∧
      (pk = false → isum base (descS ds) (kf map) = 0)
  | .nil, _, _, _, _, _, _, _, _ => ⟨fun _ => ⟨trivial, rfl⟩, fun _ => rfl⟩
  | .cons d r, k, base, hl, hw, hk, hb, pk, hpk => by
    simp only [LayL] at hl
    simp only [gWL, Bool.and_eq_true] at hw
    simp only [DList.length] at hk hpk
    simp only [descS] at hb
    have ih1 := layN_prune P d k base hl.1 hw.1 (by omega) (by omega)
    have ih2 := layL_prune P r (k + 1) (base + descT d) hl.2 hw.2 (by omega) (by omega) pk
      (fun c hc1 hc2 => hpk c (by omega) (by omega))
    have e1 : descS (.cons d r) = descT d + descS r := rfl
    constructor
    · intro hp
      have hkk : (0 : Int) ≤ map[k]! := (hpk k (by omega) (by omega)).mpr hp
      obtain ⟨q1, q2⟩ := ih1.1 hkk
      obtain ⟨r1, r2⟩ := ih2.1 hp
      have hc1 : cntK map (k + 1) = cntK map k + 1 := by rw [cntK_succ, if_pos hkk]
      have hc2 : cntK map (base + descT d) = cntK map base + descT (pruneT (fun g => copyChildren o T[g]!) d k base) := by
        rw [cntK_add, q2]
      rw [hc1, hc2] at r1
      refine ⟨?_, ?_⟩
      · simp only [pruneTL, LayL]; exact ⟨q1, r1⟩
      · rw [e1, isum_add, q2, r2]; simp only [pruneTL, descS]
    · intro hp
      have hkk : ¬ (0 : Int) ≤ map[k]! := fun h => by
        have := (hpk k (by omega) (by omega)).mp h
        rw [hp] at this; cases this
      rw [e1, isum_add, ih1.2 hkk, ih2.2 hp]
end

/-! ### the converted DAG is well formed -/

theorem treeLike_of_lay (T : Array PNode) (d : DNode) (hl : LayN T d 0 1) (hn : T.size = 1 + descT d)
    (hw : gW d = true) : TreeLike T := by
  refine ⟨by omega, fun j hj => ?_, fun g c hg hgc => ?_⟩
  · rw [← coverArr_get T j hj]; exact cover_ok T d hl hn hw j hj
  · have hoff := offLocal_ok T d hl hn hw g hg
    unfold offLocal at hoff
    unfold ind at hgc
    simp only at hoff hgc
    split at hgc
    · rename_i hk
      simp only [hk, if_true, Bool.and_eq_true, decide_eq_true_eq] at hoff
      split at hgc
      · omega
      · omega
    · split at hgc
      · rename_i hk hg'
        simp only [hk, hg', if_true, Bool.false_eq_true, if_false, Bool.or_eq_true, Bool.and_eq_true,
          decide_eq_true_eq, beq_iff_eq] at hoff
        split at hgc
        · omega
        · omega
      · omega

theorem shrink_eq (o : ShrinkOpts) (G : PiDag) :
    shrink o G = finishDag (pruneCopy G.T G.S (pruneMap o G.T).1).1 (pruneCopy G.T G.S (pruneMap o G.T).1).2 G.nw := rfl

/-- **the shrinking copy of a laid-out DAG of the recorder's shape is well formed**, whatever its
    edge array and string table were (both are rebuilt) and whatever the conversion options -/
theorem shrink_wellFormed_of_lay (o : ShrinkOpts) (G : PiDag) (d : DNode) (hl : LayN G.T d 0 1)
    (hn : G.T.size = 1 + descT d) (h : gTask d = true) :
    wellFormed (shrink o G) = true ∧
    ∃ d', LayN (shrink o G).T d' 0 1 ∧ (shrink o G).T.size = 1 + descT d' ∧ gTask d' = true := by
  have hw := gTask_gW d h
  have ht := treeLike_of_lay G.T d hl hn hw
  have F := pruneMap_final o G.T ht
  have C := pruneCopy_final G.T G.S (pruneMap o G.T).1
  have P : PCtx o G.T (pruneMap o G.T).1 (pruneCopy G.T G.S (pruneMap o G.T).1).1 :=
    ⟨F, fun j hj hk => C.get j hj hk⟩
  have hmain := (layN_prune P d 0 1 hl hw (by omega) (by omega)).1 F.root
  have hc0 : cntK (pruneMap o G.T).1 0 = 0 := by simp [cntK, rsum]
  have hc1 : cntK (pruneMap o G.T).1 1 = 1 := by
    have := cntK_succ (pruneMap o G.T).1 0
    rw [if_pos F.root, hc0] at this
    exact this
  rw [hc0, hc1] at hmain
  obtain ⟨q1, q2⟩ := hmain
  have hsz : (pruneCopy G.T G.S (pruneMap o G.T).1).1.size =
      1 + descT (pruneT (fun g => copyChildren o G.T[g]!) d 0 1) := by
    rw [C.sz, hn, cntK_add, hc1, q2]
  have hg := (pruneT_gram (fun g => copyChildren o G.T[g]!) d 0 1 true).2.2 h
  rw [shrink_eq]
  refine ⟨finishDag_wellFormed _ _ _ _ q1 hsz hg C.str, _, ?_, ?_, hg⟩
  · exact (finishDag_lay _ _ _ _ q1 hsz).1
  · exact (finishDag_lay _ _ _ _ q1 hsz).2

/-- **every converted dump is well formed**: the `dag2any` shrinking copy of the dump of a recorded
    DAG, under any conversion-time contraction options -/
theorem shrink_flatten_wellFormed (o : ShrinkOpts) (sc nw : Nat) (d : DNode) (h : gTask d = true) :
    wellFormed (shrink o (flatten sc nw d)) = true :=
  (shrink_wellFormed_of_lay o _ d (flatten_lay sc nw d).1 (flatten_lay sc nw d).2 h).1

end MythVerif.PiDag
