import MythVerif.Proofs.DagRecPathEst
/-!
The edges of the dependency graph (`edgesT`), counted by kind, are the edge counts of the
uncontracted interval sequence (`flatEC`) — the numbers the recorder's root reports in
`logical_edge_counts` (`C18_counts_exact`).
-/
namespace MythVerif.DagRec
open MythVerif.PiDag (PEdge)

/-- number of edges of each kind -/
def edgeCounts : List PEdge → EC
  | [] => {}
  | e :: r => EC.single e.kind 1 + edgeCounts r

theorem edgeCounts_append (a b : List PEdge) : edgeCounts (a ++ b) = edgeCounts a + edgeCounts b := by
  induction a with
  | nil => simp only [List.nil_append, edgeCounts]; ext <;> simp
  | cons e r ih => simp only [List.cons_append, edgeCounts, ih]; ext <;> simp <;> omega

theorem edgeCounts_nil : edgeCounts [] = {} := rfl

theorem edgeCounts_cons (e : PEdge) (r : List PEdge) : edgeCounts (e :: r) = EC.single e.kind 1 + edgeCounts r := rfl

theorem flatEC_cons (l : Leaf) (ls : List Leaf) : flatEC (l :: ls) = flatEC [l] + flatEC ls :=
  flatEC_append [l] ls

theorem createEdgesF_cons (t : Nat) (x : Tree) (r : Forest) (o : Nat) :
    createEdgesF t (.cons x r) o = createOfT t x o ++ createEdgesF t r (o + (leavesTree x).length) := by
  rw [createEdgesF]

/-- the `create` / `end` edges of a section's children, emitted by the section's parent -/
def sectionOnly (b : Bool) (es : List PEdge) : List PEdge := if b then [] else es

mutual
theorem edgeCounts_tree : ∀ (x : Tree) (o : Nat),
    (∀ b t t', wnItem b x = true →
      edgeCounts (edgesT x o) + edgeCounts (itemEdgesT t x o) + edgeCounts (createOfT t' x o) = flatEC (leavesTree x)) ∧
    (∀ b, isLast b x = true → edgeCounts (edgesT x o) + ownWait b = flatEC (leavesTree x)) ∧
    (wnTask x = true → edgeCounts (edgesT x o) = flatEC (leavesTree x))
  | .ival k r, o => by
    refine ⟨?_, ?_, by simp [wnTask]⟩
    · intro b t t' h
      simp [wnItem] at h; subst h
      simp only [edgesT, itemEdgesT, sectionEdgesT, createOfT, contKindOf, edgeCounts, leavesTree]
      ext <;> simp [flatEC, flatCount, EC.single]
    · intro b h
      cases b <;> simp [isLast] at h <;> subst h <;>
        simp only [edgesT, edgeCounts, leavesTree] <;> (ext <;> simp [flatEC, flatCount, ownWait])
  | .create r ch, o => by
    refine ⟨?_, by simp [isLast], by simp [wnTask]⟩
    intro b t t' h
    simp only [wnItem, Bool.and_eq_true] at h
    have ih := (edgeCounts_tree ch (o + 1)).2.2 h.2
    simp only [edgesT, itemEdgesT, sectionEdgesT, createOfT, contKindOf, edgeCounts, leavesTree]
    rw [flatEC_cons, ih]
    ext <;> simp [flatEC, flatCount, EC.single] <;> omega
  | .group k f, o => by
    refine ⟨?_, by simp [isLast], ?_⟩
    · intro b t t' h
      simp only [wnItem, Bool.and_eq_true, beq_iff_eq] at h
      obtain ⟨rfl, hf⟩ := h
      have ih := edgeCounts_forest f o false t hf
      simp only [sectionOnly, Bool.false_eq_true, if_false] at ih
      simp only [edgesT, itemEdgesT, sectionEdgesT, createOfT, contKindOf, edgeCounts, leavesTree, if_true, edgeCounts_append]
      rw [← ih]
      ext <;> simp [ownWait, EC.single] <;> omega
    · intro h
      simp only [wnTask, Bool.and_eq_true, beq_iff_eq] at h
      obtain ⟨rfl, hf⟩ := h
      have ih := edgeCounts_forest f o true 0 hf
      simp only [sectionOnly, if_true, edgeCounts] at ih
      simp only [edgesT, leavesTree, edgeCounts_append]
      rw [← ih]
      ext <;> simp [ownWait]
theorem edgeCounts_forest : ∀ (f : Forest) (o : Nat) (b : Bool) (t : Nat), wnForest b f = true →
    edgeCounts (groupEdgesF f o) + edgeCounts (edgesSubF f o) + edgeCounts (sectionOnly b (createEdgesF t f o)) + ownWait b =
      flatEC (leavesForest f)
  | .nil, _, _, _, h => by simp [wnForest] at h
  | .cons x .nil, o, b, t, h => by
    simp only [wnForest] at h
    have ih := (edgeCounts_tree x o).2.1 b h
    obtain ⟨k, r, rfl⟩ := isLast_ival h
    rw [leavesForest_cons, show leavesTree (.ival k r) ++ leavesForest .nil = leavesTree (.ival k r) by
      simp [leavesForest], ← ih]
    simp only [groupEdgesF, Forest.isNil, if_true, edgesSubF, createEdgesF, createOfT,
      List.append_nil, edgeCounts, sectionOnly]
    cases b <;> (ext <;> simp [edgeCounts])
  | .cons x (.cons y r'), o, b, t, h => by
    simp only [wnForest, Bool.and_eq_true] at h
    have ihx := (edgeCounts_tree x o).1 b (o + (leavesTree x).length) t h.1
    have ihr := edgeCounts_forest (.cons y r') (o + (leavesTree x).length) b t h.2
    rw [leavesForest_cons, flatEC_append, ← ihx, ← ihr, groupEdgesF_cons2, edgesSubF_cons, createEdgesF_cons]
    simp only [edgeCounts_append]
    cases b with
    | false =>
      simp only [sectionOnly, Bool.false_eq_true, if_false, edgeCounts_append]
      ext <;> simp <;> omega
    | true =>
      have hc : createOfT t x o = [] := by
        cases x with
        | ival _ _ => rfl
        | group _ _ => rfl
        | create _ _ => simp [wnItem] at h
      simp only [sectionOnly, if_true, hc, edgeCounts]
      ext <;> simp <;> omega
end

/-- the dependency graph has exactly as many edges of each kind as the uncontracted interval
    sequence demands -/
theorem edgeCounts_task (t : Tree) (h : wnTask t = true) : edgeCounts (edgesT t 0) = flatEC (leavesTree t) :=
  (edgeCounts_tree t 0).2.2 h

end MythVerif.DagRec
