import MythVerif.Proofs.Barrier
import MythVerif.Proofs.BarrierRel
import MythVerif.Proofs.BarrierCas
/-! Barrier: the invariant lifted to every state reachable by the participants, and helper lemmas
for the property theorems of `Properties/C06.lean`. -/
namespace MythVerif.Barrier
open MythVerif

/-- reachable by a label sequence in which only members of `P` act, on a barrier for `P.length` -/
def Reach (P : List Tid) (s : St) : Prop :=
  ∃ ls : List Lbl, WellUsed P ls ∧ runs (step P.length) init ls = some s

theorem inv_step (P : List Tid) (s s' : St) (l : Lbl) (h : Inv P s) (hP : l.actor ∈ P)
    (hs : step P.length s l = some s') : Inv P s' := by
  cases l with
  | read t v => exact p_read P s s' t v h hP hs
  | cas t ok => exact p_cas P s s' t ok h hP hs
  | reset t => exact p_reset P s s' t h hP hs
  | popRead t x => exact p_popRead P s s' t x h hP hs
  | popCas t ok => exact p_popCas P s s' t ok h hP hs
  | wakePush t x => exact p_wakePush P s s' t x h hP hs
  | ret t v => exact p_ret P s s' t v h hP hs
  | blockBegin t => exact p_blockBegin P s s' t h hP hs
  | pushRead t x => exact p_pushRead P s s' t x h hP hs
  | pushCas t ok => exact p_pushCas P s s' t ok h hP hs

theorem runs_inv_wu (P : List Tid) : ∀ (ls : List Lbl) (s s' : St), Inv P s → WellUsed P ls →
    runs (step P.length) s ls = some s' → Inv P s' := by
  intro ls
  induction ls with
  | nil => intro s s' h _ hr; simp [runs] at hr; subst hr; exact h
  | cons l ls ih =>
    intro s s' h hw hr
    simp only [runs] at hr
    split at hr
    · rename_i s1 h1
      exact ih s1 s' (inv_step P s s1 l h (hw l (by simp)) h1) (fun l' hl' => hw l' (by simp [hl'])) hr
    · simp at hr

/-- the invariant holds in every state reachable by the participants (any N ≥ 1, any number of
    rounds, any interleaving) -/
theorem reach_inv (P : List Tid) (hn : P.Nodup) (h0 : P ≠ []) (s : St) (h : Reach P s) : Inv P s := by
  obtain ⟨ls, hw, hr⟩ := h
  have h1 : 1 ≤ P.length := by
    cases P with
    | nil => exact absurd rfl h0
    | cons a r => simp
  exact runs_inv_wu P ls init s (inv_init P h1 hn) hw hr

theorem reach_step (P : List Tid) (s s' : St) (l : Lbl) (h : Reach P s) (hP : l.actor ∈ P)
    (hs : step P.length s l = some s') : Reach P s' := by
  obtain ⟨ls, hw, hr⟩ := h
  refine ⟨ls ++ [l], ?_, ?_⟩
  · intro l' hl'
    simp at hl'
    rcases hl' with h | h
    · exact hw l' h
    · subst h; exact hP
  · rw [runs_append, hr]; simp [runs, hs]

/-- a returning thread is the releasing last arriver or a woken sleeper; either way it belongs to
    the previous generation -/
theorem ret_old (P : List Tid) (s s' : St) (t : Tid) (v : Nat) (hi : Inv P s)
    (hs : step P.length s (.ret t v) = some s') :
    t ∈ s.old ∧ ((s.pc t = .lret ∧ v = SERIAL ∧ s.ldr = some t) ∨ (s.pc t = .woken ∧ v = 0 ∧ s.ldr ≠ some t)) := by
  simp only [step] at hs
  split at hs
  · rename_i hc
    have hl := (hi.ldrI t).mp (by simp [hc.1, ldrPc])
    exact ⟨hi.ldrO t hl, Or.inl ⟨hc.1, hc.2, hl⟩⟩
  · split at hs
    · rename_i hc
      refine ⟨hi.wokO t hc.1, Or.inr ⟨hc.1, hc.2, ?_⟩⟩
      intro hl
      have := (hi.ldrI t).mpr hl
      simp [hc.1, ldrPc] at this
    · simp at hs

/-- program counters a thread can have when the barrier has a single participant -/
def n1Pc : PC → Bool
  | .idle | .retry | .rd _ | .lreset | .lret | .exited => true
  | _ => false

theorem n1_upd (pc : Tid → PC) (t : Tid) (x : PC) (h1 : ∀ u, n1Pc (pc u) = true) (hx : n1Pc x = true) :
    ∀ u, n1Pc (upd pc t x u) = true := by
  intro u; simp only [upd_apply]; split
  · exact hx
  · exact h1 u

theorem n1_step (P : List Tid) (hN : P.length = 1) (s s' : St) (l : Lbl) (hi : Inv P s)
    (h1 : ∀ t, n1Pc (s.pc t) = true) (hs : step P.length s l = some s') : ∀ t, n1Pc (s'.pc t) = true := by
  have hrd := hi.rdC
  rw [hN] at hs hrd
  cases l with
  | read t v =>
    simp only [step] at hs
    split at hs
    · split at hs <;> (simp at hs; subst hs; exact n1_upd _ _ _ h1 (by simp [n1Pc]))
    · simp at hs
  | cas t ok =>
    simp only [step] at hs
    split at hs
    · rename_i v hpc
      have := hrd t v hpc
      split at hs
      · split at hs
        · split at hs
          · simp at hs; subst hs; exact n1_upd _ _ _ h1 (by simp [n1Pc])
          · omega
        · simp at hs; subst hs; exact n1_upd _ _ _ h1 (by simp [n1Pc])
      · simp at hs
    · simp at hs
  | reset t =>
    simp only [step] at hs
    split at hs
    · simp at hs; subst hs; exact n1_upd _ _ _ h1 (by simp [n1Pc])
    · simp at hs
  | popRead t x =>
    simp only [step] at hs
    split at hs
    · rename_i acc hpc; have := h1 t; simp [hpc, n1Pc] at this
    · simp at hs
  | popCas t ok =>
    simp only [step] at hs
    split at hs
    · rename_i x nx acc hpc; have := h1 t; simp [hpc, n1Pc] at this
    · simp at hs
  | wakePush t x =>
    simp only [step] at hs
    split at hs
    · rename_i y rem hpc; have := h1 t; simp [hpc, n1Pc] at this
    · simp at hs
  | ret t v =>
    simp only [step] at hs
    split at hs
    · simp at hs; subst hs; exact n1_upd _ _ _ h1 (by simp [n1Pc])
    · split at hs
      · rename_i hc; have := h1 t; simp [hc.1, n1Pc] at this
      · simp at hs
  | blockBegin t =>
    simp only [step] at hs
    split at hs
    · rename_i hpc; have := h1 t; simp [hpc, n1Pc] at this
    · simp at hs
  | pushRead t x =>
    simp only [step] at hs
    split at hs
    · rename_i hc; have := h1 t; simp [hc.1, n1Pc] at this
    · simp at hs
  | pushCas t ok =>
    simp only [step] at hs
    split at hs
    · rename_i x hpc; have := h1 t; simp [hpc, n1Pc] at this
    · simp at hs

end MythVerif.Barrier
