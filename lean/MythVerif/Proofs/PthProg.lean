import MythVerif.Model.PthProg
/-!
Determinacy of the fork-join + lock-protected-commutative fragment (`MythVerif.PthProg.Prog`):
every step of the abstract interface preserves `val` and `store + delta`, so every complete
execution ends in `eval p`; terms that are not finished can always move and every execution is
finite (`size` decreases), so complete executions exist and are the only maximal ones.
-/
namespace MythVerif.PthProg

theorem step_preserves (x y : Prog × Store) (h : Step x y) :
    val y.1 = val x.1 ∧ ∀ i, y.2 i + delta y.1 i = x.2 i + delta x.1 i := by
  induction h with
  | add c k σ =>
    refine ⟨by simp [val], ?_⟩
    intro i
    simp only [delta, Store.bump]
    split <;> simp
  | seqL a a' b σ σ' _ ih =>
    refine ⟨by simp [val, ih.1], ?_⟩
    intro i
    have := ih.2 i
    simp only [delta] at *
    omega
  | seqR v b b' σ σ' _ ih =>
    refine ⟨by simp [val, ih.1], ?_⟩
    intro i
    have := ih.2 i
    simp only [delta] at *
    omega
  | seqDone v w σ => exact ⟨by simp [val], by intro i; simp [delta]⟩
  | fork c b σ => exact ⟨by simp [val], by intro i; simp [delta]⟩
  | parL c c' b σ σ' _ ih =>
    refine ⟨by simp [val, ih.1], ?_⟩
    intro i
    have := ih.2 i
    simp only [delta] at *
    omega
  | parR c b b' σ σ' _ ih =>
    refine ⟨by simp [val, ih.1], ?_⟩
    intro i
    have := ih.2 i
    simp only [delta] at *
    omega
  | join v w σ => exact ⟨by simp [val], by intro i; simp [delta]⟩

theorem steps_preserve (x y : Prog × Store) (h : Steps x y) :
    val y.1 = val x.1 ∧ ∀ i, y.2 i + delta y.1 i = x.2 i + delta x.1 i := by
  induction h with
  | refl x => exact ⟨rfl, fun _ => rfl⟩
  | cons x y z hxy _ ih =>
    have h1 := step_preserves x y hxy
    exact ⟨ih.1.trans h1.1, fun i => (ih.2 i).trans (h1.2 i)⟩

theorem step_size (x y : Prog × Store) (h : Step x y) : size y.1 < size x.1 := by
  induction h <;> simp [size] at * <;> omega

theorem steps_length (x y : Prog × Store) (h : Steps x y) : size y.1 ≤ size x.1 := by
  induction h with
  | refl x => exact Nat.le_refl _
  | cons x y z hxy _ ih => have := step_size x y hxy; omega

/-- a term that is not a finished value can move, whatever the store -/
theorem progress (p : Prog) (σ : Store) : (∃ v, p = .ret v) ∨ ∃ p' σ', Step (p, σ) (p', σ') := by
  induction p generalizing σ with
  | ret v => exact Or.inl ⟨v, rfl⟩
  | add c k => exact Or.inr ⟨_, _, Step.add c k σ⟩
  | seq a b iha ihb =>
    right
    rcases iha σ with ⟨v, rfl⟩ | ⟨a', σ', h⟩
    · rcases ihb σ with ⟨w, rfl⟩ | ⟨b', σ', h⟩
      · exact ⟨_, _, Step.seqDone v w σ⟩
      · exact ⟨_, _, Step.seqR v b b' σ σ' h⟩
    · exact ⟨_, _, Step.seqL a a' b σ σ' h⟩
  | fork c b _ _ => exact Or.inr ⟨_, _, Step.fork c b σ⟩
  | par c b ihc ihb =>
    right
    rcases ihc σ with ⟨v, rfl⟩ | ⟨c', σ', h⟩
    · rcases ihb σ with ⟨w, rfl⟩ | ⟨b', σ', h⟩
      · exact ⟨_, _, Step.join v w σ⟩
      · exact ⟨_, _, Step.parR _ b b' σ σ' h⟩
    · exact ⟨_, _, Step.parL c c' b σ σ' h⟩

theorem steps_trans (x y z : Prog × Store) (h1 : Steps x y) (h2 : Steps y z) : Steps x z := by
  induction h1 with
  | refl x => exact h2
  | cons a b c hab _ ih => exact Steps.cons a b z hab (ih h2)

/-- from every configuration some complete execution exists -/
theorem complete_exists (n : Nat) : ∀ (p : Prog) (σ : Store), size p ≤ n → ∃ v σ', Steps (p, σ) (.ret v, σ') := by
  induction n with
  | zero =>
    intro p σ hs
    rcases progress p σ with ⟨v, rfl⟩ | ⟨p', σ', h⟩
    · exact ⟨v, σ, Steps.refl _⟩
    · have := step_size _ _ h; simp at this; omega
  | succ n ih =>
    intro p σ hs
    rcases progress p σ with ⟨v, rfl⟩ | ⟨p', σ', h⟩
    · exact ⟨v, σ, Steps.refl _⟩
    · have hlt := step_size _ _ h
      simp at hlt
      obtain ⟨v, σ'', hr⟩ := ih p' σ' (by omega)
      exact ⟨v, σ'', Steps.cons _ _ _ h hr⟩

end MythVerif.PthProg
