import MythVerif.Proofs.WsQueueTsoTac
/-! Preservation lemmas of the TSO invariant (owner: pop, decision and slot accesses). -/
namespace MythVerif.WsqTso
open MythVerif.Wsq

theorem o_po2 (s s' : St) (t) : Inv s → s.opc = .po2 t → stepO s = some s' → Inv s' := by
  intro h heq hs
  obtain ⟨hb, htop, hltt, _⟩ := h.po2 t heq
  have hlen := h.len
  have hlbase := h.lbase (by simp [heq, resetting])
  have hwk3 := h.wk3
  have hwkd := h.wkd
  have hkeep : s.base + 1 < t → s.tr = true →
      s.A.dropLast ≠ [] ∧ s.A.dropLast.head? = s.A.head? ∧ s.lb < s.top := by
    intro h1 h2
    simp [h2] at hlbase
    have : 2 ≤ s.A.length := by omega
    exact ⟨(dropLast_keep _ this).1, (dropLast_keep _ this).2, by omega⟩
  simp only [stepO, heq, hb, viewBase_nil] at hs
  split at hs
  · rename_i hlt
    split at hs
    · simp at hs; subst hs
      tso_coreO h heq [po2]
      constructor
      all_goals (try simp only [ownerLocked, carry, resetting, ownerFlight, upd_apply, applySto])
      case wk3 =>
        intro q b hq
        obtain ⟨h1, h2, h3, h4, h5⟩ := hwk3 q b hq
        obtain ⟨k1, k2, k3⟩ := hkeep hlt h2
        exact ⟨h1, h2, k1, by rw [k2]; exact h4, Or.inl (by omega)⟩
      case wkd =>
        intro q b r hq
        obtain ⟨h1, h2, h3, h4, h5⟩ := hwkd q b r hq
        obtain ⟨k1, k2, k3⟩ := hkeep hlt h2
        exact ⟨h1, h2, k1, by rw [k2]; exact h4, Or.inl (by omega)⟩
      tso_goalsO h heq
    · simp at hs; subst hs
      tso_fastO h heq [po2]
  · simp at hs; subst hs
    tso_fastO h heq [po2]

theorem o_po3 (s s' : St) (t x) : Inv s → s.opc = .po3 t x → stepO s = some s' → Inv s' := by
  intro h heq hs
  have hb := (h.po3 t x heq).1
  simp only [stepO, heq, hb, viewPtr_nil] at hs
  simp at hs; subst hs
  tso_fastO h heq [po3]

theorem o_pol (s s' : St) (t) : Inv s → s.opc = .pol t → stepO s = some s' → Inv s' := by
  intro h heq hs
  have hb := (h.pol t heq).1
  simp only [stepO, heq, hb] at hs
  simp at hs
  split at hs
  · simp at hs; subst hs
    tso_fastO h heq [pol]
  · simp at hs; subst hs; exact h

theorem o_po4 (s s' : St) (t) : Inv s → s.opc = .po4 t → stepO s = some s' → Inv s' := by
  intro h heq hs
  have hb := (h.po4 t heq).1
  simp only [stepO, heq, hb, viewBase_nil] at hs
  split at hs
  · split at hs
    all_goals (simp at hs; subst hs)
    all_goals tso_fastO h heq [po4]
  · simp at hs; subst hs
    tso_fastO h heq [po4]

theorem o_po5 (s s' : St) (t x) : Inv s → s.opc = .po5 t x → stepO s = some s' → Inv s' := by
  intro h heq hs
  have hb := (h.po5 t x heq).1
  simp only [stepO, heq, hb, viewPtr_nil] at hs
  simp at hs; subst hs
  tso_fastO h heq [po5]

theorem o_po5b (s s' : St) (t r) : Inv s → s.opc = .po5b t r → stepO s = some s' → Inv s' := by
  intro h heq hs
  simp only [stepO, heq] at hs
  simp at hs; subst hs
  tso_fastO h heq [po5b]

end MythVerif.WsqTso
