import MythVerif.Proofs.Life
/-! Lifting of the life-cycle invariant to all reachable states, shared by C01 / C12 / C13. -/
namespace MythVerif.Life
open MythVerif

theorem inv_step (s s' : St) (l : Lbl) (h : Inv s) (hs : step s l = some s') : Inv s' := by
  cases l with
  | tStart => exact p_tStart s s' h hs
  | tFinish v => exact p_tFinish s s' v h hs
  | tLockRead w => exact p_tLockRead s s' w h hs
  | tStackFree => exact p_tStackFree s s' h hs
  | tPublish d => exact p_tPublish s s' d h hs
  | tDescFree => exact p_tDescFree s s' h hs
  | jLocked j f => exact p_jLocked s s' j f h hs
  | jSwitch j => exact p_jSwitch s s' j h hs
  | jSet j => exact p_jSet s s' j h hs
  | jSpin j => exact p_jSpin s s' j h hs
  | jReap j v => exact p_jReap s s' j v h hs
  | descFree j => exact p_descFree s s' j h hs
  | tjLocked j f => exact p_tjLocked s s' j f h hs
  | dFast j f => exact p_dFast s s' j f h hs
  | dLocked j f => exact p_dLocked s s' j f h hs

/-- reachable from creation with argument `arg`, created detached or not -/
def Reach (arg : Val) (d : Bool) (s : St) : Prop := Reachable step (init arg d) s

theorem reach_inv (arg : Val) (d : Bool) (s : St) (h : Reach arg d s) : Inv s :=
  inv_reachable step (init arg d) Inv (inv_init arg d) (fun s l s' => inv_step s s' l) s h

end MythVerif.Life
