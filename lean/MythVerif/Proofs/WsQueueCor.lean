import MythVerif.Proofs.WsQueueAcct
import MythVerif.Proofs.WsQueueProgress
/-! Corollaries of the SC invariant used by the property theorems of C02. -/
namespace MythVerif.Wsq

theorem count_eq_one_of_nodup (l : List Elem) (e : Elem) (hd : l.Nodup) (he : e ∈ l) : l.count e = 1 := by
  induction l with
  | nil => simp at he
  | cons a t ih =>
    rw [List.nodup_cons] at hd
    by_cases hae : a = e
    · subst hae
      have : t.count a = 0 := List.count_eq_zero.2 hd.1
      simp [this]
    · have : e ∈ t := by
        rcases List.mem_cons.1 he with h | h
        · exact absurd h.symm hae
        · exact h
      simp [hae, ih hd.2 this]

theorem no_loss_no_dup (n : Int) (hn : 0 ≤ n) (s : St) (h : Reachable step (init n) s) (hd : s.ins.Nodup) :
    s.retd.Nodup ∧ (s.A ++ (s.flT.toList ++ (s.flO.toList ++ s.retd))).Perm s.ins := by
  obtain ⟨_, ha⟩ := reachable_inv_acct n hn s h
  refine ⟨?_, ha⟩
  have := ha.nodup_iff.2 hd
  unfold acctList at this
  have h1 := (List.nodup_append.1 this).2.1
  have h2 := (List.nodup_append.1 h1).2.1
  exact (List.nodup_append.1 h2).2.1

theorem exactly_once (n : Int) (hn : 0 ≤ n) (s : St) (h : Reachable step (init n) s) (hd : s.ins.Nodup)
    (e : Elem) (he : e ∈ s.ins) :
    s.A.count e + s.flT.toList.count e + s.flO.toList.count e + s.retd.count e = 1 := by
  obtain ⟨_, ha⟩ := reachable_inv_acct n hn s h
  have h1 : (acctList s).count e = s.ins.count e := ha.count_eq e
  have h2 : s.ins.count e = 1 := count_eq_one_of_nodup _ _ hd he
  unfold acctList at h1
  simp only [List.count_append] at h1
  omega

/-- in a quiescent state (nobody inside an operation) nothing is in flight -/
theorem quiescent_no_flight (s : St) (h : Inv s) (ho : s.opc = .idle) (ht : ∀ p, s.tpc p = .idle) :
    s.flO = none ∧ s.flT = none ∧ s.lock = .free ∧ s.base = s.lb ∧ s.top = s.lt := by
  have h1 : s.flO = none := h.flOn (by simp [ho, ownerFlight])
  have h2 : s.flT = none := by
    false_or_by_contra
    rename_i hne
    obtain ⟨q, _, hf⟩ := h.flTn hne
    rw [ht q] at hf; simp [thiefFlight] at hf
  have h3 : s.tr = false := by
    cases htr : s.tr with
    | false => rfl
    | true =>
      obtain ⟨q, hq⟩ := h.trn htr
      have := (h.lockT q).1 hq
      rw [ht q] at this; simp [thiefLocked] at this
  have h4 : s.lock = .free := by
    cases hl : s.lock with
    | free => rfl
    | owner => have := h.lockO.1 hl; rw [ho] at this; simp [ownerLocked] at this
    | thief q => have := (h.lockT q).1 hl; rw [ht q] at this; simp [thiefLocked] at this
  have h5 := h.lbase (by simp [ho, baseSync])
  have h6 := h.ltop (by simp [ho, topSync])
  simp [h3] at h5
  simp [ho, midPop] at h6
  exact ⟨h1, h2, h4, h5, h6.symm⟩

theorem owner_locked_tr (s : St) (h : Inv s) (hl : ownerLocked s.opc = true) : s.tr = false := by
  cases htr : s.tr with
  | false => rfl
  | true =>
    obtain ⟨q, hq⟩ := h.trn htr
    have := h.lockO.2 hl
    rw [hq] at this; cases this

/-- the overflow guard of push fires exactly on a full queue -/
theorem pub_abort_iff (s : St) (h : Inv s) (e : Elem) (hpc : s.opc = .pub e) :
    s.base = 0 ↔ (s.A.length : Int) = s.size := by
  have htr := owner_locked_tr s h (by simp [hpc, ownerLocked])
  have e1 := h.ltop (by simp [hpc, topSync])
  have e2 := h.lbase (by simp [hpc, baseSync])
  have e3 := h.pub e hpc
  have e4 := h.len
  have e5 := h.lb0
  simp [hpc, midPop] at e1
  simp [htr] at e2
  omega

/-- the overflow guard of put fires exactly on a full queue -/
theorem pt2_abort_iff (s : St) (h : Inv s) (e : Elem) (hpc : s.opc = .pt2 e) :
    s.top = s.size ↔ (s.A.length : Int) = s.size := by
  have htr := owner_locked_tr s h (by simp [hpc, ownerLocked])
  have e1 := h.ltop (by simp [hpc, topSync])
  have e2 := h.lbase (by simp [hpc, baseSync])
  have e3 := h.pt2 e hpc
  have e4 := h.len
  have e5 := h.lts
  simp [hpc, midPop] at e1
  simp [htr] at e2
  omega

/-- clear's assertion fails exactly on a non-empty queue -/
theorem cl1_assert_iff (s : St) (h : Inv s) (hpc : s.opc = .cl1) : s.top = s.base ↔ s.A = [] := by
  have htr := owner_locked_tr s h (by simp [hpc, ownerLocked])
  have e1 := h.ltop (by simp [hpc, topSync])
  have e2 := h.lbase (by simp [hpc, baseSync])
  have e4 := h.len
  simp [hpc, midPop] at e1
  simp [htr] at e2
  rw [← List.length_eq_zero_iff]
  omega

/-- slot index touched by the owner's next step -/
def slotO (s : St) : Option Int :=
  match s.opc with
  | .pu1 _ t => some t | .po3 t _ => some t | .po5 t _ => some t | .po5b t _ => some t
  | .pt7 _ b => some (b - 1)
  | _ => none

/-- slot index touched by participant `p`'s next step -/
def slotT (s : St) (p : Pid) : Option Int :=
  match s.tpc p with
  | .tk3 b _ => some b | .wk3 b => some b | .tp2 _ b => some (b - 1) | .pk3 b => some b | .vk3 b => some b
  | _ => none

theorem slotO_in_bounds (s : St) (h : Inv s) (i : Int) (hi : slotO s = some i) : 0 ≤ i ∧ i < s.size := by
  unfold slotO at hi
  have e4 := h.len
  have e5 := h.lb0
  have e6 := h.lts
  split at hi <;> simp at hi <;> subst hi
  · rename_i e t hpc; have := h.pu1 e t hpc; omega
  · rename_i t x hpc; have := h.po3 t x hpc; omega
  · rename_i t x hpc; have := h.po5 t x hpc; omega
  · rename_i t r hpc; have := h.po5b t r hpc; omega
  · rename_i e b hpc
    have := h.pt7 e b hpc
    have htr := owner_locked_tr s h (by simp [hpc, ownerLocked])
    have e2 := h.lbase (by simp [hpc, baseSync])
    simp [htr] at e2
    omega

theorem slotT_in_bounds (s : St) (h : Inv s) (p : Pid) (i : Int) (hi : slotT s p = some i) :
    0 ≤ i ∧ i < s.size := by
  unfold slotT at hi
  have e4 := h.len
  have e5 := h.lb0
  have e6 := h.lts
  split at hi <;> simp at hi <;> subst hi
  · rename_i b x hpc; have := h.tk3 p b x hpc; omega
  · rename_i b hpc; have := h.wk3 p b hpc; omega
  · rename_i e b hpc; have := h.tp2 p e b hpc; omega
  · rename_i b hpc; have := h.pk3 p b hpc; omega
  · rename_i b hpc; have := h.vk3 p b hpc; omega

/-- both `memmove`s stay inside the storage -/
theorem memmove_in_bounds (s : St) (h : Inv s) :
    (∀ e off, s.opc = .pum e off → 0 ≤ s.base + off ∧ s.top + off ≤ s.size ∧ 0 ≤ s.base ∧ s.top ≤ s.size) ∧
    (∀ e off, s.opc = .pt3 e off → 0 ≤ s.base + off ∧ s.top + off ≤ s.size ∧ 0 ≤ s.base ∧ s.top ≤ s.size) := by
  have b0 := h.base0
  have ts := h.tops
  constructor
  · intro e off hpc; have := h.pum e off hpc; omega
  · intro e off hpc; have := h.pt3 e off hpc; omega

/-- while the owner reads slot `t` without the lock, no other participant's pending slot access
    (claiming read of take / wsapi take / wsapi peek, or the store of a pass) is at index `t` -/
theorem fast_path_disjoint (s : St) (h : Inv s) (t : Int) (x : Elem) (hpc : s.opc = .po3 t x) :
    s.ptr t = some x ∧ s.flO = some x ∧ ∀ p i, slotT s p = some i → (∀ b, s.tpc p ≠ .pk3 b) → i < t := by
  have e0 := h.po3 t x hpc
  have e1 := h.ltop (by simp [hpc, topSync])
  simp [hpc, midPop] at e1
  refine ⟨e0.2.1, e0.2.2.2.1, ?_⟩
  intro p i hi hnk
  unfold slotT at hi
  split at hi <;> simp at hi <;> subst hi
  · rename_i b y hq; have := h.tk3 p b y hq; omega
  · rename_i b hq; have := h.wk3 p b hq; omega
  · rename_i e b hq; have := h.tp2 p e b hq; omega
  · rename_i b hq; exact absurd hq (hnk b)
  · rename_i b hq; have := h.vk3 p b hq; omega

/-- a declined steal: the callback saw the head of the deque, and after the roll-back the queue is
    exactly as before -/
theorem decline_spec (s : St) (h : Inv s) (p : Pid) (b : Int) (r : Option Elem) (hpc : s.tpc p = .wkd b r) :
    r = s.A.head? ∧ s.A ≠ [] ∧
    ∃ s1 s2 s3, step s (.tDecide p false) = some s1 ∧ step s1 (.t p) = some s2 ∧ step s2 (.t p) = some s3 ∧
      s3.A = s.A ∧ s3.retd = s.retd ∧ s3.ins = s.ins ∧ s3.ptr = s.ptr ∧ s3.top = s.top ∧
      s3.base = s3.lb ∧ s3.lb = s.lb ∧ s3.lock = .free ∧ s3.tpc p = .idle := by
  have e := h.wkd p b r hpc
  have e4 := h.len
  have hne : s.A ≠ [] := by
    intro hA; rw [hA] at e4; simp at e4; omega
  have hc := h.cont 0 (by cases hA : s.A with | nil => exact absurd hA hne | cons a t => simp)
  refine ⟨?_, hne, ?_⟩
  · rw [e.2.2, ← e.1, List.head?_eq_getElem?, ← hc]; simp
  · let s1 : St := { s with tpc := upd s.tpc p (.wk5 b) }
    let s2 : St := { s1 with base := b, tr := false, tpc := upd s1.tpc p .wk6 }
    let s3 : St := { s2 with lock := .free, tpc := upd s2.tpc p .idle }
    refine ⟨s1, s2, s3, ?_, ?_, ?_, ?_⟩
    · simp [step, stepD, hpc, s1]
    · simp [step, stepT, s1, s2]
    · simp [step, stepT, s2, s3]
    · simp [s1, s2, s3, e.1]
end MythVerif.Wsq
