import MythVerif.Proofs.WsQueueTsoFlTop1
import MythVerif.Proofs.WsQueueTsoFlTop2
import MythVerif.Proofs.WsQueueTsoFlTop3
import MythVerif.Proofs.WsQueueTsoFlTop4
import MythVerif.Proofs.WsQueueTsoFlTop5
import MythVerif.Proofs.WsQueueTsoFlTop6
import MythVerif.Proofs.WsQueueTsoFlBase1
import MythVerif.Proofs.WsQueueTsoFlBase2
import MythVerif.Proofs.WsQueueTsoFlBase3
import MythVerif.Proofs.WsQueueTsoFlPtr1
import MythVerif.Proofs.WsQueueTsoFlPtr2
import MythVerif.Proofs.WsQueueTsoFlPtr3
import MythVerif.Proofs.WsQueueTsoFlPtr4
import MythVerif.Proofs.WsQueueTsoFlPtr5
import MythVerif.Proofs.WsQueueTsoFlShift1
import MythVerif.Proofs.WsQueueTsoFlShift2
import MythVerif.Proofs.WsQueueTsoFlShift3
import MythVerif.Proofs.WsQueueTsoFlCache1
import MythVerif.Proofs.WsQueueTsoFlTptr31
import MythVerif.Proofs.WsQueueTsoFlTptr32
import MythVerif.Proofs.WsQueueTsoFlTptr33
import MythVerif.Proofs.WsQueueTsoFlTptr34
import MythVerif.Proofs.WsQueueTsoFlTptr35
import MythVerif.Proofs.WsQueueTsoFlTptr41
import MythVerif.Proofs.WsQueueTsoFlTptr42
import MythVerif.Proofs.WsQueueTsoFlTptr43
import MythVerif.Proofs.WsQueueTsoFlTptr44
import MythVerif.Proofs.WsQueueTsoFlTptr45
import MythVerif.Proofs.WsQueueTsoFlTbaseI1
import MythVerif.Proofs.WsQueueTsoFlTbaseI2
import MythVerif.Proofs.WsQueueTsoFlTbaseI3
import MythVerif.Proofs.WsQueueTsoFlTbaseI4
import MythVerif.Proofs.WsQueueTsoFlTbaseI5
/-! Drains of buffered stores: dispatch over the program counter of the owner.  For each kind of store
    only a few program counters can have it at the head of the owner's buffer (the others contradict
    their buffer-shape clause); a passer's stores drain while the owner is outside its locked sections. -/
namespace MythVerif.WsqTso
open MythVerif.Wsq

theorem f_O_top (s s' : St) (v0) (rest : List Sto) : Inv s → s.bufO = .top v0 :: rest →
    s' = applySto { s with bufO := rest } (.top v0) → Inv s' := by
  intro h hb hs
  subst hs
  suffices key : ∀ pc, s.opc = pc → Inv (applySto { s with bufO := rest } (.top v0)) from key _ rfl
  intro pc hpc
  cases pc
  case idle => exact f_O_top_idle s v0 rest h hpc hb
  case pu0 e => exact f_O_top_pu0 s v0 rest e h hpc hb
  case pu0f e t => exact f_O_top_pu0f s v0 rest e t h hpc hb
  case pq => exact f_O_top_pq s v0 rest h hpc hb
  case po1 => exact f_O_top_po1 s v0 rest h hpc hb
  case ptl e => exact f_O_top_ptl s v0 rest e h hpc hb
  case cll => exact f_O_top_cll s v0 rest h hpc hb
  case pof t => exact f_O_top_pof s v0 rest t h hpc hb
  case po8 => exact f_O_top_po8 s v0 rest h hpc hb
  case po9 => exact f_O_top_po9 s v0 rest h hpc hb
  case puv e off => exact f_O_top_puv s v0 rest e off h hpc hb
  case pux e t => exact f_O_top_pux s v0 rest e t h hpc hb
  case pt5 e off => exact f_O_top_pt5 s v0 rest e off h hpc hb
  case pt6 e => exact f_O_top_pt6 s v0 rest e h hpc hb
  case pt7 e b => exact f_O_top_pt7 s v0 rest e b h hpc hb
  case pt8 e b => exact f_O_top_pt8 s v0 rest e b h hpc hb
  case pt9 => exact f_O_top_pt9 s v0 rest h hpc hb
  case cl3 => exact f_O_top_cl3 s v0 rest h hpc hb
  all_goals tso_absurd_core h hpc

theorem f_O_base (s s' : St) (v0) (rest : List Sto) : Inv s → s.bufO = .base v0 :: rest →
    s' = applySto { s with bufO := rest } (.base v0) → Inv s' := by
  intro h hb hs
  subst hs
  suffices key : ∀ pc, s.opc = pc → Inv (applySto { s with bufO := rest } (.base v0)) from key _ rfl
  intro pc hpc
  cases pc
  case po9 => exact f_O_base_po9 s v0 rest h hpc hb
  case pux e t => exact f_O_base_pux s v0 rest e t h hpc hb
  case pt6 e => exact f_O_base_pt6 s v0 rest e h hpc hb
  case pt7 e b => exact f_O_base_pt7 s v0 rest e b h hpc hb
  case pt8 e b => exact f_O_base_pt8 s v0 rest e b h hpc hb
  case pt9 => exact f_O_base_pt9 s v0 rest h hpc hb
  case cl2 => exact f_O_base_cl2 s v0 rest h hpc hb
  case cl3 => exact f_O_base_cl3 s v0 rest h hpc hb
  all_goals tso_absurd_core h hpc

theorem f_O_ptr (s s' : St) (i0 x0) (rest : List Sto) : Inv s → s.bufO = .ptr i0 x0 :: rest →
    s' = applySto { s with bufO := rest } (.ptr i0 x0) → Inv s' := by
  intro h hb hs
  subst hs
  suffices key : ∀ pc, s.opc = pc → Inv (applySto { s with bufO := rest } (.ptr i0 x0)) from key _ rfl
  intro pc hpc
  cases pc
  case idle => exact f_O_ptr_idle s i0 x0 rest h hpc hb
  case pu0 e => exact f_O_ptr_pu0 s i0 x0 rest e h hpc hb
  case pu0f e t => exact f_O_ptr_pu0f s i0 x0 rest e t h hpc hb
  case pq => exact f_O_ptr_pq s i0 x0 rest h hpc hb
  case po1 => exact f_O_ptr_po1 s i0 x0 rest h hpc hb
  case ptl e => exact f_O_ptr_ptl s i0 x0 rest e h hpc hb
  case cll => exact f_O_ptr_cll s i0 x0 rest h hpc hb
  case pu2 e t => exact f_O_ptr_pu2 s i0 x0 rest e t h hpc hb
  case pof t => exact f_O_ptr_pof s i0 x0 rest t h hpc hb
  case po5c t r => exact f_O_ptr_po5c s i0 x0 rest t r h hpc hb
  case po5d r => exact f_O_ptr_po5d s i0 x0 rest r h hpc hb
  case po6 r => exact f_O_ptr_po6 s i0 x0 rest r h hpc hb
  case pt8 e b => exact f_O_ptr_pt8 s i0 x0 rest e b h hpc hb
  case pt9 => exact f_O_ptr_pt9 s i0 x0 rest h hpc hb
  all_goals tso_absurd_core h hpc

theorem f_O_shift (s s' : St) (lo0 hi0 off0) (rest : List Sto) : Inv s → s.bufO = .shift lo0 hi0 off0 :: rest →
    s' = applySto { s with bufO := rest } (.shift lo0 hi0 off0) → Inv s' := by
  intro h hb hs
  subst hs
  suffices key : ∀ pc, s.opc = pc → Inv (applySto { s with bufO := rest } (.shift lo0 hi0 off0)) from key _ rfl
  intro pc hpc
  cases pc
  case pus e off => exact f_O_shift_pus s lo0 hi0 off0 rest e off h hpc hb
  case puv e off => exact f_O_shift_puv s lo0 hi0 off0 rest e off h hpc hb
  case pux e t => exact f_O_shift_pux s lo0 hi0 off0 rest e t h hpc hb
  case pt4 e off => exact f_O_shift_pt4 s lo0 hi0 off0 rest e off h hpc hb
  case pt5 e off => exact f_O_shift_pt5 s lo0 hi0 off0 rest e off h hpc hb
  case pt6 e => exact f_O_shift_pt6 s lo0 hi0 off0 rest e h hpc hb
  case pt7 e b => exact f_O_shift_pt7 s lo0 hi0 off0 rest e b h hpc hb
  case pt8 e b => exact f_O_shift_pt8 s lo0 hi0 off0 rest e b h hpc hb
  case pt9 => exact f_O_shift_pt9 s lo0 hi0 off0 rest h hpc hb
  all_goals tso_absurd_core h hpc

theorem f_O_cache (s s' : St) (x0) (rest : List Sto) : Inv s → s.bufO = .cache x0 :: rest →
    s' = applySto { s with bufO := rest } (.cache x0) → Inv s' := by
  intro h hb hs
  subst hs
  suffices key : ∀ pc, s.opc = pc → Inv (applySto { s with bufO := rest } (.cache x0)) from key _ rfl
  intro pc hpc
  cases pc
  case po6 r => exact f_O_cache_po6 s x0 rest r h hpc hb
  all_goals tso_absurd_core h hpc

theorem f_T_ptr3 (s : St) (p : Pid) (e0 : Elem) : Inv s → s.lock = .thief p →
    s.bufT p = [.ptr (s.lb - 1) (some e0)] → s.tpc p = .tp3 e0 →
    Inv (applySto { s with bufT := upd s.bufT p [] } (.ptr (s.lb - 1) (some e0))) := by
  intro h hl h0 h1
  suffices key : ∀ pc, s.opc = pc → Inv (applySto { s with bufT := upd s.bufT p [] } (.ptr (s.lb - 1) (some e0))) from key _ rfl
  intro pc hopc
  cases pc
  case idle => exact f_T_ptr3_idle s p e0 h hopc hl h0 h1
  case pu0 e => exact f_T_ptr3_pu0 s p e0 e h hopc hl h0 h1
  case pu0f e t => exact f_T_ptr3_pu0f s p e0 e t h hopc hl h0 h1
  case pul e => exact f_T_ptr3_pul s p e0 e h hopc hl h0 h1
  case pu1 e t => exact f_T_ptr3_pu1 s p e0 e t h hopc hl h0 h1
  case pu2 e t => exact f_T_ptr3_pu2 s p e0 e t h hopc hl h0 h1
  case pq => exact f_T_ptr3_pq s p e0 h hopc hl h0 h1
  case po1 => exact f_T_ptr3_po1 s p e0 h hopc hl h0 h1
  case pof t => exact f_T_ptr3_pof s p e0 t h hopc hl h0 h1
  case po2 t => exact f_T_ptr3_po2 s p e0 t h hopc hl h0 h1
  case po3 t x => exact f_T_ptr3_po3 s p e0 t x h hopc hl h0 h1
  case pol t => exact f_T_ptr3_pol s p e0 t h hopc hl h0 h1
  case ptl e => exact f_T_ptr3_ptl s p e0 e h hopc hl h0 h1
  case cll => exact f_T_ptr3_cll s p e0 h hopc hl h0 h1
  all_goals (exfalso; have := h.lockO.2 (by simp [hopc, ownerLocked]); rw [hl] at this; cases this)

theorem f_T_ptr4 (s : St) (p : Pid) (e0 : Elem) (ok : Bool) : Inv s → s.lock = .thief p →
    s.bufT p = [.ptr (s.lb - 1) (some e0), .baseI (s.lb - 1) e0] → s.tpc p = .tp4 ok →
    Inv (applySto { s with bufT := upd s.bufT p [.baseI (s.lb - 1) e0] } (.ptr (s.lb - 1) (some e0))) := by
  intro h hl h0 h1
  suffices key : ∀ pc, s.opc = pc → Inv (applySto { s with bufT := upd s.bufT p [.baseI (s.lb - 1) e0] } (.ptr (s.lb - 1) (some e0))) from key _ rfl
  intro pc hopc
  cases pc
  case idle => exact f_T_ptr4_idle s p e0 ok h hopc hl h0 h1
  case pu0 e => exact f_T_ptr4_pu0 s p e0 ok e h hopc hl h0 h1
  case pu0f e t => exact f_T_ptr4_pu0f s p e0 ok e t h hopc hl h0 h1
  case pul e => exact f_T_ptr4_pul s p e0 ok e h hopc hl h0 h1
  case pu1 e t => exact f_T_ptr4_pu1 s p e0 ok e t h hopc hl h0 h1
  case pu2 e t => exact f_T_ptr4_pu2 s p e0 ok e t h hopc hl h0 h1
  case pq => exact f_T_ptr4_pq s p e0 ok h hopc hl h0 h1
  case po1 => exact f_T_ptr4_po1 s p e0 ok h hopc hl h0 h1
  case pof t => exact f_T_ptr4_pof s p e0 ok t h hopc hl h0 h1
  case po2 t => exact f_T_ptr4_po2 s p e0 ok t h hopc hl h0 h1
  case po3 t x => exact f_T_ptr4_po3 s p e0 ok t x h hopc hl h0 h1
  case pol t => exact f_T_ptr4_pol s p e0 ok t h hopc hl h0 h1
  case ptl e => exact f_T_ptr4_ptl s p e0 ok e h hopc hl h0 h1
  case cll => exact f_T_ptr4_cll s p e0 ok h hopc hl h0 h1
  all_goals (exfalso; have := h.lockO.2 (by simp [hopc, ownerLocked]); rw [hl] at this; cases this)

theorem f_T_baseI (s : St) (p : Pid) (e0 : Elem) (ok : Bool) : Inv s → s.lock = .thief p →
    s.bufT p = [.baseI (s.lb - 1) e0] → s.tpc p = .tp4 ok → s.ptr (s.lb - 1) = some e0 →
    Inv (applySto { s with bufT := upd s.bufT p [] } (.baseI (s.lb - 1) e0)) := by
  intro h hl h0 h1 h2
  suffices key : ∀ pc, s.opc = pc → Inv (applySto { s with bufT := upd s.bufT p [] } (.baseI (s.lb - 1) e0)) from key _ rfl
  intro pc hopc
  cases pc
  case idle => exact f_T_baseI_idle s p e0 ok h hopc hl h0 h1 h2
  case pu0 e => exact f_T_baseI_pu0 s p e0 ok e h hopc hl h0 h1 h2
  case pu0f e t => exact f_T_baseI_pu0f s p e0 ok e t h hopc hl h0 h1 h2
  case pul e => exact f_T_baseI_pul s p e0 ok e h hopc hl h0 h1 h2
  case pu1 e t => exact f_T_baseI_pu1 s p e0 ok e t h hopc hl h0 h1 h2
  case pu2 e t => exact f_T_baseI_pu2 s p e0 ok e t h hopc hl h0 h1 h2
  case pq => exact f_T_baseI_pq s p e0 ok h hopc hl h0 h1 h2
  case po1 => exact f_T_baseI_po1 s p e0 ok h hopc hl h0 h1 h2
  case pof t => exact f_T_baseI_pof s p e0 ok t h hopc hl h0 h1 h2
  case po2 t => exact f_T_baseI_po2 s p e0 ok t h hopc hl h0 h1 h2
  case po3 t x => exact f_T_baseI_po3 s p e0 ok t x h hopc hl h0 h1 h2
  case pol t => exact f_T_baseI_pol s p e0 ok t h hopc hl h0 h1 h2
  case ptl e => exact f_T_baseI_ptl s p e0 ok e h hopc hl h0 h1 h2
  case cll => exact f_T_baseI_cll s p e0 ok h hopc hl h0 h1 h2
  all_goals (exfalso; have := h.lockO.2 (by simp [hopc, ownerLocked]); rw [hl] at this; cases this)

end MythVerif.WsqTso
