import MythVerif.Proofs.WsQueueTsoTac
/-! Preservation lemmas of the TSO invariant (wsapi peek: quick check, cache tests, trylock). -/
namespace MythVerif.WsqTso
open MythVerif.Wsq

theorem t_vq0 (s s' : St) (p : Pid) : Inv s → s.tpc p = .vq0 → stepT s p = some s' → Inv s' := by
  intro h heq hs
  have hb := h.tbufE p (by simp [heq, mayBuf])
  simp only [stepT, heq, hb, viewTop_nil] at hs
  simp at hs; subst hs
  tso_fastT h p []

theorem t_vq1 (s s' : St) (p : Pid) (t) : Inv s → s.tpc p = .vq1 t → stepT s p = some s' → Inv s' := by
  intro h heq hs
  have hb := h.tbufE p (by simp [heq, mayBuf])
  simp only [stepT, heq, hb, viewBase_nil] at hs
  split at hs
  all_goals (simp at hs; subst hs)
  all_goals tso_fastT h p []

theorem t_vc0 (s s' : St) (p : Pid) : Inv s → s.tpc p = .vc0 → stepT s p = some s' → Inv s' := by
  intro h heq hs
  have hb := h.tbufE p (by simp [heq, mayBuf])
  simp only [stepT, heq, hb] at hs
  split at hs
  all_goals (simp at hs; subst hs)
  all_goals tso_fastT h p []

theorem t_vl (s s' : St) (p : Pid) : Inv s → s.tpc p = .vl → stepT s p = some s' → Inv s' := by
  intro h heq hs
  have hb := h.tbufE p (by simp [heq, mayBuf])
  simp only [stepT, heq, hb] at hs
  simp at hs
  split at hs
  all_goals (simp at hs; subst hs)
  all_goals tso_fastT h p []

theorem t_vc1 (s s' : St) (p : Pid) : Inv s → s.tpc p = .vc1 → stepT s p = some s' → Inv s' := by
  intro h heq hs
  have hb := h.tbufE p (by simp [heq, mayBuf])
  simp only [stepT, heq, hb] at hs
  split at hs
  all_goals (simp at hs; subst hs)
  all_goals tso_fastT h p []

end MythVerif.WsqTso
