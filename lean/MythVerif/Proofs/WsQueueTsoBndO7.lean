import MythVerif.Proofs.WsQueueTsoBnd
/-! Preservation of the bounds invariant `Bnd` (generated per program counter): owner at pt5, pt6, pt7, pt8, pt9. -/
namespace MythVerif.WsqTso
open MythVerif.Wsq

theorem bO_pt5 (s s' : St) (e off) : Inv s → Inv s' → Bnd s → s.opc = .pt5 e off → stepO s = some s' → Bnd s' := by
  intro h h' hb hpc hs
  have hcfg := h.cfg
  have hview := owner_views s h
  have hbc := hb.pt5
  have a1 := h'.pu1; have a2 := h'.pu2; have a3 := h'.pux; have a4 := h'.pt7; have a5 := h'.pt8; have a6 := h'.shz; have a7 := h'.po3; have a8 := h'.po5
  simp only [stepO, hpc, releaseO, fenceOk, hcfg, code_unlockFence, code_pushRb, code_popFence, if_true] at hs
  all_goals (try split at hs)
  all_goals (try split at hs)
  all_goals (try simp at hs)
  all_goals (try (first | (subst hs; exact hb) | subst hs))
  all_goals (
    tso_coreO h hpc [pt5]
    bnd_core hb
    simp only [hpc, ownerLocked, carry, resetting, ownerFlight] at a1 a2 a3 a4 a5 a6 a7 a8 hview hbc
    constructor
    all_goals (bnd_pick hb; rename_i hold)
    all_goals (first | exact hold | (
      (try simp only [hpc, upd_apply, applySto] at hold ⊢)
      first | assumption | (intros; contradiction) | grind [thiefLocked, mayBuf, notTrans, thiefFlight, popWin, rcOff_bnd, Rc1Shape, Rc2Shape, RcPre, RcShape, InsShape, Pu2Shape, CarryShape] | skip)))

theorem bO_pt6 (s s' : St) (e) : Inv s → Inv s' → Bnd s → s.opc = .pt6 e → stepO s = some s' → Bnd s' := by
  intro h h' hb hpc hs
  have hcfg := h.cfg
  have hview := owner_views s h
  have hbc := hb.pt6
  have a1 := h'.pu1; have a2 := h'.pu2; have a3 := h'.pux; have a4 := h'.pt7; have a5 := h'.pt8; have a6 := h'.shz; have a7 := h'.po3; have a8 := h'.po5
  simp only [stepO, hpc, releaseO, fenceOk, hcfg, code_unlockFence, code_pushRb, code_popFence, if_true] at hs
  all_goals (try split at hs)
  all_goals (try split at hs)
  all_goals (try simp at hs)
  all_goals (try (first | (subst hs; exact hb) | subst hs))
  all_goals (
    tso_coreO h hpc [pt6]
    bnd_core hb
    simp only [hpc, ownerLocked, carry, resetting, ownerFlight] at a1 a2 a3 a4 a5 a6 a7 a8 hview hbc
    constructor
    all_goals (bnd_pick hb; rename_i hold)
    all_goals (first | exact hold | (
      (try simp only [hpc, upd_apply, applySto] at hold ⊢)
      first | assumption | (intros; contradiction) | grind [thiefLocked, mayBuf, notTrans, thiefFlight, popWin, rcOff_bnd, Rc1Shape, Rc2Shape, RcPre, RcShape, InsShape, Pu2Shape, CarryShape] | skip)))

theorem bO_pt7 (s s' : St) (e b) : Inv s → Inv s' → Bnd s → s.opc = .pt7 e b → stepO s = some s' → Bnd s' := by
  intro h h' hb hpc hs
  have hcfg := h.cfg
  have hview := owner_views s h
  have hbc := hb.pt7
  have a1 := h'.pu1; have a2 := h'.pu2; have a3 := h'.pux; have a4 := h'.pt7; have a5 := h'.pt8; have a6 := h'.shz; have a7 := h'.po3; have a8 := h'.po5
  simp only [stepO, hpc, releaseO, fenceOk, hcfg, code_unlockFence, code_pushRb, code_popFence, if_true] at hs
  all_goals (try split at hs)
  all_goals (try split at hs)
  all_goals (try simp at hs)
  all_goals (try (first | (subst hs; exact hb) | subst hs))
  all_goals (
    tso_coreO h hpc [pt7]
    bnd_core hb
    simp only [hpc, ownerLocked, carry, resetting, ownerFlight] at a1 a2 a3 a4 a5 a6 a7 a8 hview hbc
    constructor
    all_goals (bnd_pick hb; rename_i hold)
    all_goals (first | exact hold | (
      (try simp only [hpc, upd_apply, applySto] at hold ⊢)
      first | assumption | (intros; contradiction) | grind [thiefLocked, mayBuf, notTrans, thiefFlight, popWin, rcOff_bnd, Rc1Shape, Rc2Shape, RcPre, RcShape, InsShape, Pu2Shape, CarryShape] | skip)))

theorem bO_pt8 (s s' : St) (e b) : Inv s → Inv s' → Bnd s → s.opc = .pt8 e b → stepO s = some s' → Bnd s' := by
  intro h h' hb hpc hs
  have hcfg := h.cfg
  have hview := owner_views s h
  have hbc := hb.pt8
  have a1 := h'.pu1; have a2 := h'.pu2; have a3 := h'.pux; have a4 := h'.pt7; have a5 := h'.pt8; have a6 := h'.shz; have a7 := h'.po3; have a8 := h'.po5
  simp only [stepO, hpc, releaseO, fenceOk, hcfg, code_unlockFence, code_pushRb, code_popFence, if_true] at hs
  all_goals (try split at hs)
  all_goals (try split at hs)
  all_goals (try simp at hs)
  all_goals (try (first | (subst hs; exact hb) | subst hs))
  all_goals (
    tso_coreO h hpc [pt8]
    bnd_core hb
    simp only [hpc, ownerLocked, carry, resetting, ownerFlight] at a1 a2 a3 a4 a5 a6 a7 a8 hview hbc
    constructor
    all_goals (bnd_pick hb; rename_i hold)
    all_goals (first | exact hold | (
      (try simp only [hpc, upd_apply, applySto] at hold ⊢)
      first | assumption | (intros; contradiction) | grind [thiefLocked, mayBuf, notTrans, thiefFlight, popWin, rcOff_bnd, Rc1Shape, Rc2Shape, RcPre, RcShape, InsShape, Pu2Shape, CarryShape] | skip)))

theorem bO_pt9 (s s' : St) : Inv s → Inv s' → Bnd s → s.opc = .pt9 → stepO s = some s' → Bnd s' := by
  intro h h' hb hpc hs
  have hcfg := h.cfg
  have hview := owner_views s h
  have hbc := hb.pt9
  have a1 := h'.pu1; have a2 := h'.pu2; have a3 := h'.pux; have a4 := h'.pt7; have a5 := h'.pt8; have a6 := h'.shz; have a7 := h'.po3; have a8 := h'.po5
  simp only [stepO, hpc, releaseO, fenceOk, hcfg, code_unlockFence, code_pushRb, code_popFence, if_true] at hs
  all_goals (try split at hs)
  all_goals (try split at hs)
  all_goals (try simp at hs)
  all_goals (try (first | (subst hs; exact hb) | subst hs))
  all_goals (
    tso_coreO h hpc [pt9]
    bnd_core hb
    simp only [hpc, ownerLocked, carry, resetting, ownerFlight] at a1 a2 a3 a4 a5 a6 a7 a8 hview hbc
    constructor
    all_goals (bnd_pick hb; rename_i hold)
    all_goals (first | exact hold | (
      (try simp only [hpc, upd_apply, applySto] at hold ⊢)
      first | assumption | (intros; contradiction) | grind [thiefLocked, mayBuf, notTrans, thiefFlight, popWin, rcOff_bnd, Rc1Shape, Rc2Shape, RcPre, RcShape, InsShape, Pu2Shape, CarryShape] | skip)))

end MythVerif.WsqTso
