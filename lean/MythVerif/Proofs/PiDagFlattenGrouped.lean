import MythVerif.Proofs.PiDagFlattenCount
/-! The `grouped` conjunct: after `dr_pi_dag_sort_edges` and `dr_pi_dag_set_edge_ptrs` the edges are
sorted by source and `edges_begin` / `edges_end` partition `E` by source. -/
namespace MythVerif.PiDag
open MythVerif.DagRec

/-! ### sorting -/

theorem edgeLe_trans (a b c : PEdge) (h1 : edgeLe a b = true) (h2 : edgeLe b c = true) : edgeLe a c = true := by
  simp only [edgeLe, Bool.or_eq_true, decide_eq_true_eq, Bool.and_eq_true, beq_iff_eq] at *
  omega

theorem edgeLe_total (a b : PEdge) : (edgeLe a b || edgeLe b a) = true := by
  simp only [edgeLe, Bool.or_eq_true, decide_eq_true_eq, Bool.and_eq_true, beq_iff_eq]
  omega

theorem sortEdges_sorted (es : List PEdge) : (sortEdges es).Pairwise (fun a b => a.u ≤ b.u) := by
  have := List.pairwise_mergeSort edgeLe_trans edgeLe_total es
  refine List.Pairwise.imp ?_ this
  intro a b h
  simp only [edgeLe, Bool.or_eq_true, decide_eq_true_eq, Bool.and_eq_true, beq_iff_eq] at h
  omega

/-! ### positions in a list sorted by source -/

/-- number of edges with a source below `i` -/
def cntLt (L : List PEdge) (i : Nat) : Nat := L.countP (fun e => decide (e.u < i))

theorem cntLt_cons (a : PEdge) (L : List PEdge) (i : Nat) :
    cntLt (a :: L) i = cntLt L i + (if a.u < i then 1 else 0) := by
  simp [cntLt, List.countP_cons]

theorem cntLt_zero_of_ge (L : List PEdge) (i : Nat) (h : ∀ e ∈ L, i ≤ e.u) : cntLt L i = 0 := by
  simp only [cntLt, List.countP_eq_zero, decide_eq_true_eq]
  intro e he; have := h e he; omega

theorem cntLt_le (L : List PEdge) (i : Nat) : cntLt L i ≤ L.length := List.countP_le_length

theorem cntLt_mono (L : List PEdge) (i : Nat) : cntLt L i ≤ cntLt L (i + 1) := by
  induction L with
  | nil => simp [cntLt]
  | cons a L ih => rw [cntLt_cons, cntLt_cons]; split <;> split <;> omega

theorem cntLt_all (L : List PEdge) (n : Nat) (h : ∀ e ∈ L, e.u < n) : cntLt L n = L.length := by
  simp only [cntLt, List.countP_eq_length, decide_eq_true_eq]
  exact h

theorem sorted_pos : ∀ (L : List PEdge), L.Pairwise (fun a b => a.u ≤ b.u) → ∀ (i p : Nat) (hp : p < L.length),
    (L[p].u < i ↔ p < cntLt L i)
  | [], _, _, p, hp => by simp at hp
  | a :: L, hs, i, p, hp => by
    rw [List.pairwise_cons] at hs
    rw [cntLt_cons]
    by_cases ha : a.u < i
    · simp only [ha, if_true]
      cases p with
      | zero => simp [ha]
      | succ p =>
        simp only [List.getElem_cons_succ]
        rw [sorted_pos L hs.2 i p (by simpa using hp)]
        omega
    · have hz : cntLt L i = 0 := cntLt_zero_of_ge L i (fun e he => by have := hs.1 e he; omega)
      simp only [ha, if_false, hz]
      cases p with
      | zero => simp [ha]
      | succ p =>
        simp only [List.getElem_cons_succ]
        have hp' : p < L.length := by simpa using hp
        have := hs.1 (L[p]'hp') (List.getElem_mem _)
        omega

/-! ### the edge pointer table -/

theorem cntFold_spec (L : List PEdge) : ∀ (c : Array Nat),
    (L.foldl (fun (c : Array Nat) e => c.modify (e.u + 1) (· + 1)) c).size = c.size ∧
    ∀ k, k < c.size → (L.foldl (fun (c : Array Nat) e => c.modify (e.u + 1) (· + 1)) c)[k]! =
      c[k]! + L.countP (fun e => decide (e.u + 1 = k)) := by
  induction L with
  | nil => intro c; exact ⟨rfl, fun k _ => by simp⟩
  | cons e r ih =>
    intro c
    simp only [List.foldl_cons]
    have h := ih (c.modify (e.u + 1) (· + 1))
    simp only [Array.size_modify] at h
    refine ⟨h.1, fun k hk => ?_⟩
    rw [h.2 k hk, modify_get!, List.countP_cons]
    by_cases he : e.u + 1 = k
    · subst he; simp [hk]; omega
    · simp [he]

theorem prefixFold_spec (cnt : Array Nat) : ∀ (k : Nat),
    let r := (List.range k).foldl (fun (acc : Nat × Array Nat) i =>
      let a := acc.1 + cnt[i]!
      (a, acc.2.push a)) (0, #[])
    r.1 = rsum k (fun i => cnt[i]!) ∧ r.2.size = k ∧ ∀ j, j < k → r.2[j]! = rsum (j + 1) (fun i => cnt[i]!) := by
  intro k
  induction k with
  | zero => exact ⟨rfl, rfl, fun j hj => by omega⟩
  | succ k ih =>
    simp only at ih ⊢
    rw [List.range_succ, List.foldl_append]
    simp only [List.foldl_cons, List.foldl_nil, Array.size_push]
    obtain ⟨h1, h2, h3⟩ := ih
    refine ⟨by rw [h1, rsum_succ], by rw [h2], fun j hj => ?_⟩
    by_cases hjk : j = k
    · subst hjk
      rw [getElem!_pos _ _ (by simp [h2])]
      simp only [Array.getElem_push, h2, Nat.lt_irrefl, dite_false]
      rw [h1, rsum_succ]
    · rw [getElem!_pos _ _ (by simp [h2]; omega)]
      simp only [Array.getElem_push]
      rw [dif_pos (by rw [h2]; omega), ← getElem!_pos]
      exact h3 j (by omega)

theorem countP_lt_succ (L : List PEdge) (j : Nat) :
    L.countP (fun e => decide (e.u < j)) + L.countP (fun e => decide (e.u + 1 = j + 1)) =
      L.countP (fun e => decide (e.u < j + 1)) := by
  induction L with
  | nil => rfl
  | cons a L ihL =>
    simp only [List.countP_cons, decide_eq_true_eq]
    split <;> split <;> split <;> omega

theorem rsum_countP_lt (L : List PEdge) (j : Nat) :
    rsum (j + 1) (fun i => L.countP (fun e => decide (e.u + 1 = i))) = cntLt L j := by
  induction j with
  | zero =>
    simp [rsum, cntLt]
  | succ j ih =>
    rw [rsum_succ, ih]
    exact countP_lt_succ L j

/-- `tbl[i]` is the number of edges with a source below `i` -/
theorem edgePtrTable_get (n : Nat) (L : List PEdge) (i : Nat) (hi : i ≤ n) :
    (edgePtrTable n L)[i]! = cntLt L i := by
  unfold edgePtrTable
  simp only
  have hc := cntFold_spec L (Array.replicate (n + 1) 0)
  have hp := prefixFold_spec (L.foldl (fun (c : Array Nat) e => c.modify (e.u + 1) (· + 1)) (Array.replicate (n + 1) 0)) (n + 1)
  simp only at hp
  rw [hp.2.2 i (by omega), ← rsum_countP_lt]
  apply rsum_congr
  intro x hx
  rw [hc.2 x (by simp; omega), replicate_get!]
  omega

/-! ### the check -/

theorem finishDag_grouped (T : Array PNode) (st : List Nat) (nw : Nat) (hn : 0 < T.size)
    (hb : ∀ e ∈ enumEdges T, e.u < T.size) : wfGrouped (finishDag T st nw) = true := by
  have hsize : (finishDag T st nw).T.size = T.size := (setEdgePtrs_spec _ _).1
  have hE : ∀ j : Nat, (finishDag T st nw).E[j]! = (sortEdges (enumEdges T))[j]! := fun (j : Nat) => by
    simp [finishDag]
  have hm : (finishDag T st nw).E.size = (sortEdges (enumEdges T)).length := by simp [finishDag]
  have heb : ∀ i, i < T.size → (finishDag T st nw).T[i]!.eb = cntLt (sortEdges (enumEdges T)) i := fun i hi => by
    simp only [finishDag]
    rw [setEdgePtrs_get _ _ i hi, edgePtrTable_get _ _ i (by omega)]
  have hee : ∀ i, i < T.size → (finishDag T st nw).T[i]!.ee = cntLt (sortEdges (enumEdges T)) (i + 1) := fun i hi => by
    simp only [finishDag]
    rw [setEdgePtrs_get _ _ i hi, edgePtrTable_get _ _ (i + 1) (by omega)]
  have hsorted := sortEdges_sorted (enumEdges T)
  have hb' : ∀ e ∈ sortEdges (enumEdges T), e.u < T.size := fun e he => hb e ((mem_sortEdges _ _).mp he)
  generalize sortEdges (enumEdges T) = L at *
  unfold wfGrouped
  simp only [hsize, hm, Bool.and_eq_true, decide_eq_true_eq, beq_iff_eq, List.all_eq_true, List.mem_range,
    Bool.or_eq_true]
  refine ⟨⟨⟨⟨hn, ?_⟩, ?_⟩, ?_⟩, ?_⟩
  · rw [heb 0 hn]; simp [cntLt]
  · rw [hee _ (by omega), show T.size - 1 + 1 = T.size by omega, cntLt_all L _ hb']
  · intro i hi
    rw [heb i hi, hee i hi]
    refine ⟨⟨⟨cntLt_mono L i, cntLt_le L _⟩, ?_⟩, ?_⟩
    · by_cases h : T.size ≤ i + 1
      · left; exact h
      · right; rw [heb (i + 1) (by omega)]
    · intro k hk
      rw [hE]
      have hlt : cntLt L i + k < L.length := by have := cntLt_le L (i + 1); omega
      rw [getElem!_pos L _ hlt]
      have h1 := sorted_pos L hsorted i _ hlt
      have h2 := sorted_pos L hsorted (i + 1) _ hlt
      omega
  · intro j hj
    rw [hE, hE, getElem!_pos L j (by omega), getElem!_pos L (j + 1) (by omega)]
    exact List.pairwise_iff_getElem.mp hsorted j (j + 1) (by omega) (by omega) (by omega)

/-- **grouped**: in every dump of a recorded DAG the edges are sorted by source and the
    `edges_begin` / `edges_end` of the nodes partition `E` by source -/
theorem flatten_wfGrouped (sc nw : Nat) (d : DNode) (h : gTask d = true) :
    (wfReport (flatten sc nw d)).grouped = true := by
  have hl := enumNodes_lay sc d
  exact finishDag_grouped _ _ _ (by rw [hl.2]; omega)
    (fun e he => (enumEdges_ends (enumNodes sc d).T d hl.1 hl.2 (gTask_gW d h) e he).1.1)

end MythVerif.PiDag
