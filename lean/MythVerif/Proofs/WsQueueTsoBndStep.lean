import MythVerif.Proofs.WsQueueTsoBndO1
import MythVerif.Proofs.WsQueueTsoBndO2
import MythVerif.Proofs.WsQueueTsoBndO3
import MythVerif.Proofs.WsQueueTsoBndO4
import MythVerif.Proofs.WsQueueTsoBndO5
import MythVerif.Proofs.WsQueueTsoBndO6
import MythVerif.Proofs.WsQueueTsoBndO7
import MythVerif.Proofs.WsQueueTsoBndO8
import MythVerif.Proofs.WsQueueTsoBndT1
import MythVerif.Proofs.WsQueueTsoBndT2
import MythVerif.Proofs.WsQueueTsoBndT3
import MythVerif.Proofs.WsQueueTsoBndT4
import MythVerif.Proofs.WsQueueTsoBndT5
import MythVerif.Proofs.WsQueueTsoBndT6
import MythVerif.Proofs.WsQueueTsoBndT7
import MythVerif.Proofs.WsQueueTsoBndT8
/-! `Bnd` is preserved by the program steps: dispatch over the program counters. -/
namespace MythVerif.WsqTso
open MythVerif.Wsq

theorem bnd_stepO (s s' : St) : Inv s → Inv s' → Bnd s → stepO s = some s' → Bnd s' := by
  intro h h' hb hs
  cases hpc : s.opc with
  | idle => simp [stepO, hpc] at hs
  | stuck => simp [stepO, hpc] at hs
  | stuckL => simp [stepO, hpc] at hs
  | assertFail => simp [stepO, hpc] at hs
  | pu0 e => exact bO_pu0 s s' e h h' hb hpc hs
  | pu0f e t => exact bO_pu0f s s' e t h h' hb hpc hs
  | pul e => exact bO_pul s s' e h h' hb hpc hs
  | pub e => exact bO_pub s s' e h h' hb hpc hs
  | pum e off => exact bO_pum s s' e off h h' hb hpc hs
  | pus e off => exact bO_pus s s' e off h h' hb hpc hs
  | puv e off => exact bO_puv s s' e off h h' hb hpc hs
  | pux e t => exact bO_pux s s' e t h h' hb hpc hs
  | pu1 e t => exact bO_pu1 s s' e t h h' hb hpc hs
  | pu2 e t => exact bO_pu2 s s' e t h h' hb hpc hs
  | pq => exact bO_pq s s' h h' hb hpc hs
  | po1 => exact bO_po1 s s' h h' hb hpc hs
  | pof t => exact bO_pof s s' t h h' hb hpc hs
  | po2 t => exact bO_po2 s s' t h h' hb hpc hs
  | po3 t x => exact bO_po3 s s' t x h h' hb hpc hs
  | pol t => exact bO_pol s s' t h h' hb hpc hs
  | po4 t => exact bO_po4 s s' t h h' hb hpc hs
  | po5 t x => exact bO_po5 s s' t x h h' hb hpc hs
  | po5b t r => exact bO_po5b s s' t r h h' hb hpc hs
  | po5c t r => exact bO_po5c s s' t r h h' hb hpc hs
  | po5d r => exact bO_po5d s s' r h h' hb hpc hs
  | po6 r => exact bO_po6 s s' r h h' hb hpc hs
  | po7 => exact bO_po7 s s' h h' hb hpc hs
  | po8 => exact bO_po8 s s' h h' hb hpc hs
  | po9 => exact bO_po9 s s' h h' hb hpc hs
  | ptl e => exact bO_ptl s s' e h h' hb hpc hs
  | pt1 e => exact bO_pt1 s s' e h h' hb hpc hs
  | pt2 e => exact bO_pt2 s s' e h h' hb hpc hs
  | pt3 e off => exact bO_pt3 s s' e off h h' hb hpc hs
  | pt4 e off => exact bO_pt4 s s' e off h h' hb hpc hs
  | pt5 e off => exact bO_pt5 s s' e off h h' hb hpc hs
  | pt6 e => exact bO_pt6 s s' e h h' hb hpc hs
  | pt7 e b => exact bO_pt7 s s' e b h h' hb hpc hs
  | pt8 e b => exact bO_pt8 s s' e b h h' hb hpc hs
  | pt9 => exact bO_pt9 s s' h h' hb hpc hs
  | cll => exact bO_cll s s' h h' hb hpc hs
  | cl1 => exact bO_cl1 s s' h h' hb hpc hs
  | cl2 => exact bO_cl2 s s' h h' hb hpc hs
  | cl3 => exact bO_cl3 s s' h h' hb hpc hs

theorem bnd_stepT (s s' : St) (p : Pid) : Inv s → Inv s' → Bnd s → stepT s p = some s' → Bnd s' := by
  intro h h' hb hs
  cases hpc : s.tpc p with
  | idle => simp [stepT, hpc] at hs
  | wkd b r => simp [stepT, hpc] at hs
  | tq0 => exact bT_tq0 s s' p h h' hb hpc hs
  | tq1 t => exact bT_tq1 s s' p t h h' hb hpc hs
  | tkl => exact bT_tkl s s' p h h' hb hpc hs
  | tk1 => exact bT_tk1 s s' p h h' hb hpc hs
  | tkf b => exact bT_tkf s s' p b h h' hb hpc hs
  | tk2 b => exact bT_tk2 s s' p b h h' hb hpc hs
  | tk3 b x => exact bT_tk3 s s' p b x h h' hb hpc hs
  | tk4 r => exact bT_tk4 s s' p r h h' hb hpc hs
  | tk5 b => exact bT_tk5 s s' p b h h' hb hpc hs
  | tk6 => exact bT_tk6 s s' p h h' hb hpc hs
  | tpl e => exact bT_tpl s s' p e h h' hb hpc hs
  | tp1 e => exact bT_tp1 s s' p e h h' hb hpc hs
  | tp1b e => exact bT_tp1b s s' p e h h' hb hpc hs
  | tp2 e b => exact bT_tp2 s s' p e b h h' hb hpc hs
  | tp3 e => exact bT_tp3 s s' p e h h' hb hpc hs
  | tp4 ok => exact bT_tp4 s s' p ok h h' hb hpc hs
  | kq0 => exact bT_kq0 s s' p h h' hb hpc hs
  | kq1 t => exact bT_kq1 s s' p t h h' hb hpc hs
  | pk1 => exact bT_pk1 s s' p h h' hb hpc hs
  | pk2 b => exact bT_pk2 s s' p b h h' hb hpc hs
  | pk3 b => exact bT_pk3 s s' p b h h' hb hpc hs
  | wq0 => exact bT_wq0 s s' p h h' hb hpc hs
  | wq1 t => exact bT_wq1 s s' p t h h' hb hpc hs
  | wtl => exact bT_wtl s s' p h h' hb hpc hs
  | wk1 => exact bT_wk1 s s' p h h' hb hpc hs
  | wkf b => exact bT_wkf s s' p b h h' hb hpc hs
  | wk2 b => exact bT_wk2 s s' p b h h' hb hpc hs
  | wk3 b => exact bT_wk3 s s' p b h h' hb hpc hs
  | wk4 r => exact bT_wk4 s s' p r h h' hb hpc hs
  | wk4u r => exact bT_wk4u s s' p r h h' hb hpc hs
  | wk5 b => exact bT_wk5 s s' p b h h' hb hpc hs
  | wk6 => exact bT_wk6 s s' p h h' hb hpc hs
  | vq0 => exact bT_vq0 s s' p h h' hb hpc hs
  | vq1 t => exact bT_vq1 s s' p t h h' hb hpc hs
  | vc0 => exact bT_vc0 s s' p h h' hb hpc hs
  | vl => exact bT_vl s s' p h h' hb hpc hs
  | vc1 => exact bT_vc1 s s' p h h' hb hpc hs
  | vk1 => exact bT_vk1 s s' p h h' hb hpc hs
  | vkf b => exact bT_vkf s s' p b h h' hb hpc hs
  | vk2 b => exact bT_vk2 s s' p b h h' hb hpc hs
  | vk3 b => exact bT_vk3 s s' p b h h' hb hpc hs
  | vk4 b r => exact bT_vk4 s s' p b r h h' hb hpc hs
  | vk5 b => exact bT_vk5 s s' p b h h' hb hpc hs
  | vu => exact bT_vu s s' p h h' hb hpc hs
  | vr => exact bT_vr s s' p h h' hb hpc hs

end MythVerif.WsqTso
