import MythVerif.Proofs.DagRec
/-! Closed forms of `dr_accumulate_stats` and the flat-list specification of the totals. -/
namespace MythVerif.DagRec

/-- work below a view (a create view stands for its interval and the created task) -/
def View.t1 (x : View) : Nat :=
  match x.i.c.kind, x.child with
  | .createTask, some c => x.i.c.t1 + c.c.t1
  | _, _ => x.i.c.t1

def View.nc (x : View) : NC :=
  match x.i.c.kind, x.child with
  | .createTask, some c => x.i.c.nc + c.c.nc
  | _, _ => x.i.c.nc

/-- edges a parent accounts for on behalf of child `x` (`hn` = `x->next != 0`) -/
def View.ec (v : Variant) (x : View) (hn : Bool) : EC :=
  match x.i.c.kind with
  | .createTask =>
    match x.child with
    | some c => x.i.c.ec + c.c.ec + ⟨if v = .fixed then 1 else 0, 1, 1, 0, 0⟩
    | none => x.i.c.ec
  | .section => if hn then x.i.c.ec + ⟨if v = .pinned then x.i.c.nChild else 0, 0, 0, 1, 0⟩ else x.i.c.ec
  | .other => if hn && v == .fixed then x.i.c.ec + ⟨0, 0, 0, 0, 1⟩ else x.i.c.ec
  | _ => x.i.c.ec

theorem View.t1_none (x : View) (h : x.child = none) : x.t1 = x.i.c.t1 := by
  unfold View.t1; split <;> simp_all
theorem View.nc_none (x : View) (h : x.child = none) : x.nc = x.i.c.nc := by
  unfold View.nc; split <;> simp_all

theorem accStep_t1 (v : Variant) (a : Acc) (x : View) (h : Bool) :
    (accStep v a x h).s.c.t1 = a.s.c.t1 + x.t1 := by
  unfold accStep View.t1
  split <;> (try split) <;> (try split) <;> simp_all <;> omega

theorem accStep_nc (v : Variant) (a : Acc) (x : View) (h : Bool) :
    (accStep v a x h).s.c.nc = a.s.c.nc + x.nc := by
  unfold accStep View.nc
  split <;> (try split) <;> (try split) <;> simp_all <;> (ext <;> simp <;> omega)

theorem accStep_ec (v : Variant) (a : Acc) (x : View) (h : Bool) :
    (accStep v a x h).s.c.ec = a.s.c.ec + x.ec v h := by
  unfold accStep View.ec
  split <;> (try split) <;> (try split) <;> simp_all <;> (ext <;> simp <;> (try split) <;> omega)

def sumT1 : List View → Nat
  | [] => 0
  | x :: r => x.t1 + sumT1 r
def ncSum : List View → NC
  | [] => {}
  | x :: r => x.nc + ncSum r
def ecSum (v : Variant) : List View → EC
  | [] => {}
  | x :: r => x.ec v (!r.isEmpty) + ecSum v r

theorem accStep_kind (v : Variant) (a : Acc) (x : View) (h : Bool) :
    (accStep v a x h).s.c.kind = a.s.c.kind := by
  unfold accStep
  split <;> (try split) <;> (try split) <;> simp_all

theorem accLoop_t1 (v : Variant) (xs : List View) : ∀ a : Acc,
    (accLoop v a xs).s.c.t1 = a.s.c.t1 + sumT1 xs := by
  induction xs with
  | nil => intro a; simp [accLoop, sumT1]
  | cons x r ih => intro a; simp only [accLoop, sumT1, ih, accStep_t1]; omega

theorem accLoop_nc (v : Variant) (xs : List View) : ∀ a : Acc,
    (accLoop v a xs).s.c.nc = a.s.c.nc + ncSum xs := by
  induction xs with
  | nil => intro a; simp only [accLoop, ncSum]; ext <;> simp
  | cons x r ih => intro a; simp only [accLoop, ncSum, ih, accStep_nc]; ext <;> simp <;> omega

theorem accLoop_ec (v : Variant) (xs : List View) : ∀ a : Acc,
    (accLoop v a xs).s.c.ec = a.s.c.ec + ecSum v xs := by
  induction xs with
  | nil => intro a; simp only [accLoop, ecSum]; ext <;> simp
  | cons x r ih => intro a; simp only [accLoop, ecSum, ih, accStep_ec]; ext <;> simp <;> omega

theorem accLoop_kind (v : Variant) (xs : List View) : ∀ a : Acc,
    (accLoop v a xs).s.c.kind = a.s.c.kind := by
  induction xs with
  | nil => intro a; rfl
  | cons x r ih => intro a; simp only [accLoop, ih, accStep_kind]

theorem accumulate_kind (v : Variant) (k : NKind) (xs : List View) : (accumulate v k xs).c.kind = k := by
  cases xs with
  | nil => rfl
  | cons x r => simp [accumulate, accFinish, accLoop_kind, accInit]

theorem accumulate_t1 (v : Variant) (k : NKind) (xs : List View) (h : xs ≠ []) :
    (accumulate v k xs).c.t1 = sumT1 xs := by
  cases xs with
  | nil => exact absurd rfl h
  | cons x r => simp [accumulate, accFinish, accLoop_t1, accInit]

theorem accumulate_nc (v : Variant) (k : NKind) (xs : List View) (h : xs ≠ []) :
    (accumulate v k xs).c.nc = ncSum xs := by
  cases xs with
  | nil => exact absurd rfl h
  | cons x r => simp only [accumulate, accFinish, accLoop_nc, accInit]; ext <;> simp

theorem accumulate_ec (v : Variant) (k : NKind) (xs : List View) (h : xs ≠ []) :
    (accumulate v k xs).c.ec = ecSum v xs := by
  cases xs with
  | nil => exact absurd rfl h
  | cons x r => simp only [accumulate, accFinish, accLoop_ec, accInit]; ext <;> simp

/-! #### critical path never exceeds work -/

theorem accStep_le (v : Variant) (a : Acc) (x : View) (h : Bool)
    (hx : x.i.c.tinf ≤ x.i.c.t1) (hc : ∀ c, x.child = some c → c.c.tinf ≤ c.c.t1)
    (h1 : a.s.c.tinf ≤ a.s.c.t1) (h2 : a.tinfMax ≤ a.s.c.t1) :
    (accStep v a x h).s.c.tinf ≤ (accStep v a x h).s.c.t1 ∧ (accStep v a x h).tinfMax ≤ (accStep v a x h).s.c.t1 := by
  unfold accStep
  split
  · split
    · simp; omega
    · rename_i c hc'
      have := hc c hc'
      simp [Nat.max_def]; split <;> omega
  · split <;> simp <;> omega
  · split <;> simp <;> omega
  · simp; omega

theorem accLoop_le (v : Variant) (xs : List View)
    (hx : ∀ x ∈ xs, x.i.c.tinf ≤ x.i.c.t1 ∧ ∀ c, x.child = some c → c.c.tinf ≤ c.c.t1) : ∀ a : Acc,
    a.s.c.tinf ≤ a.s.c.t1 → a.tinfMax ≤ a.s.c.t1 →
    (accLoop v a xs).s.c.tinf ≤ (accLoop v a xs).s.c.t1 ∧ (accLoop v a xs).tinfMax ≤ (accLoop v a xs).s.c.t1 := by
  induction xs with
  | nil => intro a h1 h2; exact ⟨h1, h2⟩
  | cons x r ih =>
    intro a h1 h2
    simp only [accLoop]
    have hxx := hx x (by simp)
    obtain ⟨g1, g2⟩ := accStep_le v a x (!r.isEmpty) hxx.1 hxx.2 h1 h2
    exact ih (fun y hy => hx y (by simp [hy])) _ g1 g2

theorem accumulate_le (v : Variant) (k : NKind) (xs : List View)
    (hx : ∀ x ∈ xs, x.i.c.tinf ≤ x.i.c.t1 ∧ ∀ c, x.child = some c → c.c.tinf ≤ c.c.t1) :
    (accumulate v k xs).c.tinf ≤ (accumulate v k xs).c.t1 := by
  cases xs with
  | nil => simp [accumulate]
  | cons x r =>
    simp only [accumulate, accFinish]
    obtain ⟨g1, g2⟩ := accLoop_le v (x :: r) hx { s := accInit k x ((x :: r).getLast?.getD x), tinfMax := 0 }
      (by simp [accInit]) (by simp)
    simp [Nat.max_def]; split <;> omega

mutual
/-- `t_inf ≤ t_1` for the info of every node, for every tree (no grammar needed) -/
theorem viewTree_le (v : Variant) : ∀ (t : Tree) (c : Cursor),
    (viewTree v t c).1.i.c.tinf ≤ (viewTree v t c).1.i.c.t1 ∧
      ∀ ci, (viewTree v t c).1.child = some ci → ci.c.tinf ≤ ci.c.t1
  | .ival k r, c => by simp [viewTree, endInterval]
  | .create r child, c => by
    have := (viewTree_le v child (cursorAfter (endInterval .createTask r c) .create)).1
    simp [viewTree, endInterval] at this ⊢
    exact this
  | .group k f, c => by
    simp only [viewTree]
    exact ⟨accumulate_le v k _ (viewForest_le v f c), by simp⟩
theorem viewForest_le (v : Variant) : ∀ (f : Forest) (c : Cursor),
    ∀ x ∈ (viewForest v f c).1, x.i.c.tinf ≤ x.i.c.t1 ∧ ∀ ci, x.child = some ci → ci.c.tinf ≤ ci.c.t1
  | .nil, c => by simp [viewForest]
  | .cons t rest, c => by
    intro x hx
    simp only [viewForest, List.mem_cons] at hx
    rcases hx with rfl | hx
    · exact viewTree_le v t c
    · exact viewForest_le v rest _ x hx
end

/-! #### work, interval counts and edge counts of well-nested executions -/

theorem flatWork_append (a b : List Leaf) : flatWork (a ++ b) = flatWork a + flatWork b := by
  simp [flatWork, List.map_append, List.sum_append]

theorem flatCount_append (k : NKind) (a b : List Leaf) : flatCount k (a ++ b) = flatCount k a + flatCount k b := by
  simp [flatCount, List.countP_append]

theorem flatNC_append (a b : List Leaf) : flatNC (a ++ b) = flatNC a + flatNC b := by
  ext <;> simp [flatNC, flatCount_append]

theorem flatEC_append (a b : List Leaf) : flatEC (a ++ b) = flatEC a + flatEC b := by
  ext <;> simp [flatEC, flatCount_append]

/-- the role a tree node can play inside a well-nested execution -/
def WnAny (t : Tree) : Prop := (∃ b, wnItem b t = true) ∨ (∃ b, isLast b t = true) ∨ wnTask t = true

theorem wnForest_views_ne (v : Variant) (b : Bool) (f : Forest) (c : Cursor) (h : wnForest b f = true) :
    (viewForest v f c).1 ≠ [] := by
  cases f with
  | nil => simp [wnForest] at h
  | cons t rest => simp [viewForest]

theorem wnAny_group {k : NKind} {f : Forest} (h : WnAny (.group k f)) : ∃ b, wnForest b f = true := by
  rcases h with ⟨b, h⟩ | ⟨b, h⟩ | h
  · simp [wnItem] at h; exact ⟨false, h.2⟩
  · simp [isLast] at h
  · simp [wnTask] at h; exact ⟨true, h.2⟩

theorem wnAny_create {r : Raw} {child : Tree} (h : WnAny (.create r child)) : wnTask child = true := by
  rcases h with ⟨b, h⟩ | ⟨b, h⟩ | h
  · simp [wnItem] at h; exact h.2
  · simp [isLast] at h
  · simp [wnTask] at h

theorem wnTask_group {t : Tree} (h : wnTask t = true) : ∃ f, t = .group .task f ∧ wnForest true f = true := by
  cases t with
  | ival k r => simp [wnTask] at h
  | create r ch => simp [wnTask] at h
  | group k f => simp [wnTask] at h; exact ⟨f, by rw [h.1], h.2⟩

mutual
theorem viewTree_t1_nc (v : Variant) : ∀ (t : Tree) (c : Cursor), WnAny t →
    (viewTree v t c).1.t1 = flatWork (leavesTree t) ∧ (viewTree v t c).1.nc = flatNC (leavesTree t)
  | .ival k r, c, _ => by
    cases k <;> simp [viewTree, View.t1, View.nc, endInterval, leavesTree, flatWork, Leaf.dur, flatNC, flatCount, NC.single]
  | .create r child, c, h => by
    obtain ⟨f, rfl, hf⟩ := wnTask_group (wnAny_create h)
    have ih := viewTree_t1_nc v (.group .task f) (cursorAfter (endInterval .createTask r c) .create)
      (Or.inr (Or.inr (by simp [wnTask, hf])))
    simp only [viewTree, View.t1, View.nc] at ih ⊢
    simp only [endInterval, leavesTree] at ih ⊢
    constructor
    · rw [show ∀ (l : Leaf) ls, flatWork (l :: ls) = l.dur + flatWork ls from fun _ _ => by simp [flatWork], ← ih.1]
      simp [Leaf.dur]
    · rw [show ∀ (l : Leaf) ls, flatNC (l :: ls) = flatNC [l] + flatNC ls from fun l ls => flatNC_append [l] ls, ← ih.2]
      ext <;> simp [flatNC, flatCount, NC.single]
  | .group k f, c, h => by
    obtain ⟨b, hb⟩ := wnAny_group h
    have ih := viewForest_t1_nc v f c b hb
    have hne := wnForest_views_ne v b f c hb
    simp only [viewTree, leavesTree]
    rw [View.t1_none _ rfl, View.nc_none _ rfl, accumulate_t1 v k _ hne, accumulate_nc v k _ hne]
    exact ih
theorem viewForest_t1_nc (v : Variant) : ∀ (f : Forest) (c : Cursor) (b : Bool), wnForest b f = true →
    sumT1 (viewForest v f c).1 = flatWork (leavesForest f) ∧ ncSum (viewForest v f c).1 = flatNC (leavesForest f)
  | .nil, c, b, h => by simp [wnForest] at h
  | .cons t .nil, c, b, h => by
    simp only [wnForest] at h
    have ih := viewTree_t1_nc v t c (Or.inr (Or.inl ⟨b, h⟩))
    simp only [viewForest, sumT1, ncSum, leavesForest, List.append_nil]
    refine ⟨by omega, ?_⟩
    rw [← ih.2]; ext <;> simp
  | .cons t (.cons t' rest), c, b, h => by
    simp only [wnForest, Bool.and_eq_true] at h
    have ih1 := viewTree_t1_nc v t c (Or.inl ⟨b, h.1⟩)
    have ih2 := viewForest_t1_nc v (.cons t' rest) (viewTree v t c).2 b h.2
    rw [show leavesForest (.cons t (.cons t' rest)) = leavesTree t ++ leavesForest (.cons t' rest) from rfl,
      flatWork_append, flatNC_append, ← ih1.1, ← ih1.2, ← ih2.1, ← ih2.2]
    simp [viewForest, sumT1, ncSum]
end

/-- the `wait_cont` edge of a section's own wait is accounted for by the section's parent -/
def ownWait (inTask : Bool) : EC := if inTask then {} else ⟨0, 0, 0, 1, 0⟩

theorem View.ec_group (v : Variant) (k : NKind) (xs : List View) (hn : Bool) :
    ({ i := accumulate v k xs } : View).ec v hn =
      match k with
      | .createTask => (accumulate v k xs).c.ec
      | .section => if hn then (accumulate v k xs).c.ec + ⟨if v = .pinned then (accumulate v k xs).c.nChild else 0, 0, 0, 1, 0⟩
                    else (accumulate v k xs).c.ec
      | .other => if hn && v == .fixed then (accumulate v k xs).c.ec + ⟨0, 0, 0, 0, 1⟩ else (accumulate v k xs).c.ec
      | _ => (accumulate v k xs).c.ec := by
  unfold View.ec
  rw [accumulate_kind]

mutual
theorem viewTree_ec : ∀ (t : Tree) (c : Cursor),
    (∀ b, wnItem b t = true → (viewTree .fixed t c).1.ec .fixed true = flatEC (leavesTree t)) ∧
    (∀ b, isLast b t = true → (viewTree .fixed t c).1.ec .fixed false + ownWait b = flatEC (leavesTree t)) ∧
    (wnTask t = true → (viewTree .fixed t c).1.i.c.ec = flatEC (leavesTree t))
  | .ival k r, c => by
    refine ⟨?_, ?_, by simp [wnTask]⟩
    · intro b h
      simp [wnItem] at h; subst h
      simp [viewTree, View.ec, endInterval, leavesTree, flatEC, flatCount]
      ext <;> simp
    · intro b h
      cases b <;> simp [isLast] at h <;> subst h <;>
        simp [viewTree, View.ec, endInterval, leavesTree, flatEC, flatCount, ownWait] <;> (ext <;> simp)
  | .create r child, c => by
    refine ⟨?_, by simp [isLast], by simp [wnTask]⟩
    intro b h
    simp only [wnItem, Bool.and_eq_true] at h
    have ih := (viewTree_ec child (cursorAfter (endInterval .createTask r c) .create)).2.2 h.2
    simp only [viewTree, View.ec, leavesTree]
    rw [show ∀ (l : Leaf) ls, flatEC (l :: ls) = flatEC [l] + flatEC ls from fun l ls => flatEC_append [l] ls, ← ih]
    ext <;> simp [endInterval, flatEC, flatCount] <;> omega
  | .group k f, c => by
    refine ⟨?_, by simp [isLast], ?_⟩
    · intro b h
      simp only [wnItem, Bool.and_eq_true, beq_iff_eq] at h
      obtain ⟨rfl, hf⟩ := h
      have ih := viewForest_ec f c false hf
      have hne := wnForest_views_ne .fixed false f c hf
      simp only [viewTree, leavesTree]
      rw [View.ec_group, accumulate_ec _ _ _ hne, ← ih]
      simp [ownWait]
    · intro h
      simp only [wnTask, Bool.and_eq_true, beq_iff_eq] at h
      obtain ⟨rfl, hf⟩ := h
      have ih := viewForest_ec f c true hf
      have hne := wnForest_views_ne .fixed true f c hf
      simp only [viewTree, leavesTree]
      rw [accumulate_ec _ _ _ hne, ← ih]
      ext <;> simp [ownWait]
theorem viewForest_ec : ∀ (f : Forest) (c : Cursor) (b : Bool), wnForest b f = true →
    ecSum .fixed (viewForest .fixed f c).1 + ownWait b = flatEC (leavesForest f)
  | .nil, c, b, h => by simp [wnForest] at h
  | .cons t .nil, c, b, h => by
    simp only [wnForest] at h
    have ih := (viewTree_ec t c).2.1 b h
    simp only [viewForest, ecSum, leavesForest, List.append_nil, List.isEmpty_nil, Bool.not_true]
    rw [← ih]; ext <;> simp
  | .cons t (.cons t' rest), c, b, h => by
    simp only [wnForest, Bool.and_eq_true] at h
    have ih1 := (viewTree_ec t c).1 b h.1
    have ih2 := viewForest_ec (.cons t' rest) (viewTree .fixed t c).2 b h.2
    rw [show leavesForest (.cons t (.cons t' rest)) = leavesTree t ++ leavesForest (.cons t' rest) from rfl,
      flatEC_append, ← ih1, ← ih2]
    simp only [viewForest, ecSum]
    ext <;> simp <;> omega
end

end MythVerif.DagRec
