import MythVerif.Proofs.PiDagFlattenDegrees
/-! Preorder of the slots of a laid-out DAG (create node, then its child task, then the next
sibling), the leaves, and the position of the first / last leaf: tree-level facts used to rank the
edges. -/
namespace MythVerif.PiDag
open MythVerif.DagRec

/-! ### "before" in a list -/

def Bef (l : List Nat) (u v : Nat) : Prop := u ∈ l ∧ v ∈ l ∧ l.idxOf u < l.idxOf v

theorem bef_append_left {l1 l2 : List Nat} {u v : Nat} (h : Bef l1 u v) : Bef (l1 ++ l2) u v := by
  obtain ⟨h1, h2, h3⟩ := h
  refine ⟨by simp [h1], by simp [h2], ?_⟩
  rw [List.idxOf_append, List.idxOf_append, if_pos h1, if_pos h2]
  exact h3

theorem bef_append_right {l1 l2 : List Nat} {u v : Nat} (h : Bef l2 u v) (hu : u ∉ l1) (hv : v ∉ l1) :
    Bef (l1 ++ l2) u v := by
  obtain ⟨h1, h2, h3⟩ := h
  refine ⟨by simp [h1], by simp [h2], ?_⟩
  rw [List.idxOf_append, List.idxOf_append, if_neg hu, if_neg hv]
  omega

theorem bef_append_cross {l1 l2 : List Nat} {u v : Nat} (hu : u ∈ l1) (hv : v ∉ l1) (hv2 : v ∈ l2) :
    Bef (l1 ++ l2) u v := by
  refine ⟨by simp [hu], by simp [hv2], ?_⟩
  rw [List.idxOf_append, List.idxOf_append, if_pos hu, if_neg hv]
  have := List.idxOf_lt_length_of_mem hu
  omega

theorem bef_cons {l : List Nat} {x u v : Nat} (h : Bef l u v) (hu : u ≠ x) (hv : v ≠ x) : Bef (x :: l) u v := by
  have := bef_append_right (l1 := [x]) h (by simpa using hu) (by simpa using hv)
  simpa using this

theorem bef_cons_head {l : List Nat} {x v : Nat} (hv : v ∈ l) (hne : v ≠ x) : Bef (x :: l) x v := by
  have := bef_append_cross (l1 := [x]) (l2 := l) (u := x) (v := v) (by simp) (by simpa using hne) hv
  simpa using this

/-! ### preorder -/

mutual
def preN : DNode → Nat → Nat → List Nat
  | .ival _, idx, _ => [idx]
  | .create _ ch, idx, base => idx :: preN ch base (base + 1)
  | .group _ ds, idx, base => idx :: preL ds base (base + ds.length)
def preL : DList → Nat → Nat → List Nat
  | .nil, _, _ => []
  | .cons d r, k, base => preN d k base ++ preL r (k + 1) (base + descT d)
end

/-- `r` is one of the slots of the list at `k` -/
def InL (ds : DList) (k base r : Nat) : Prop := (k ≤ r ∧ r < k + ds.length) ∨ (base ≤ r ∧ r < base + descS ds)

mutual
theorem mem_preN : ∀ (d : DNode) (idx base r : Nat), r ∈ preN d idx base ↔ InN d idx base r
  | .ival _, idx, base, r => by simp only [preN, InN, descT, List.mem_singleton]; omega
  | .create i ch, idx, base, r => by
    have := mem_preN ch base (base + 1) r
    simp only [preN, List.mem_cons, this, InN, descT]
    omega
  | .group i ds, idx, base, r => by
    have := mem_preL ds base (base + ds.length) r
    have e := descL_eq ds
    simp only [preN, List.mem_cons, this, InN, InL, descT]
    omega
theorem mem_preL : ∀ (ds : DList) (k base r : Nat), r ∈ preL ds k base ↔ InL ds k base r
  | .nil, k, base, r => by simp [preL, InL, DList.length, descS]
  | .cons d rr, k, base, r => by
    have h1 := mem_preN d k base r
    have h2 := mem_preL rr (k + 1) (base + descT d) r
    simp only [preL, List.mem_append, h1, h2, InN, InL, DList.length, descS]
    omega
end

/-! ### first / last leaf are slots of the node -/

mutual
theorem firstN_in : ∀ (d : DNode) (idx base : Nat), InN d idx base (firstN d idx base)
  | .ival _, _, _ => Or.inl rfl
  | .create _ _, _, _ => Or.inl rfl
  | .group i ds, idx, base => by
    cases ds with
    | nil => exact Or.inl rfl
    | cons d1 r =>
      have ih := firstN_in d1 base (base + (DList.cons d1 r).length)
      simp only [firstN, firstL]
      simp only [InN, descT, descL, DList.length] at ih ⊢
      have := descL_eq r
      omega
end

theorem firstL_in (ds : DList) (k base dflt : Nat) (h : ds.isNil = false) : InL ds k base (firstL ds k base dflt) := by
  cases ds with
  | nil => simp [DList.isNil] at h
  | cons d r =>
    have := firstN_in d k base
    simp only [firstL, InL, InN, DList.length, descS] at this ⊢
    omega

mutual
theorem lastN_in : ∀ (d : DNode) (idx base : Nat), InN d idx base (lastN d idx base)
  | .ival _, _, _ => Or.inl rfl
  | .create _ _, _, _ => Or.inl rfl
  | .group i ds, idx, base => by
    cases hds : ds with
    | nil => exact Or.inl rfl
    | cons d1 r =>
      rw [← hds]
      have ih := lastL_in ds base (base + ds.length) idx (by rw [hds]; rfl)
      have := descL_eq ds
      simp only [lastN, InN, InL, descT] at ih ⊢
      omega
theorem lastL_in : ∀ (ds : DList) (k base dflt : Nat), ds.isNil = false → InL ds k base (lastL ds k base dflt)
  | .nil, _, _, _, h => by simp [DList.isNil] at h
  | .cons d r, k, base, dflt, _ => by
    simp only [lastL]
    cases hr : r with
    | nil =>
      have := lastN_in d k base
      simp only [lastL, InL, InN, DList.length, descS] at this ⊢
      omega
    | cons d' r' =>
      rw [← hr]
      have := lastL_in r (k + 1) (base + descT d) (lastN d k base) (by rw [hr]; rfl)
      simp only [InL, DList.length, descS] at this ⊢
      omega
end

/-! ### leaves -/

mutual
def leavesN : DNode → Nat → Nat → List Nat
  | .ival _, idx, _ => [idx]
  | .create _ ch, idx, base => idx :: leavesN ch base (base + 1)
  | .group _ ds, idx, base => if ds.isNil then [idx] else leavesL ds base (base + ds.length)
def leavesL : DList → Nat → Nat → List Nat
  | .nil, _, _ => []
  | .cons d r, k, base => leavesN d k base ++ leavesL r (k + 1) (base + descT d)
end

mutual
theorem leavesN_in : ∀ (d : DNode) (idx base r : Nat), r ∈ leavesN d idx base → InN d idx base r
  | .ival _, idx, base, r, h => by simp [leavesN] at h; exact Or.inl h
  | .create i ch, idx, base, r, h => by
    simp only [leavesN, List.mem_cons] at h
    rcases h with h | h
    · exact Or.inl h
    · have := leavesN_in ch base (base + 1) r h
      simp only [InN, descT] at this ⊢
      omega
  | .group i ds, idx, base, r, h => by
    simp only [leavesN] at h
    split at h
    · simp at h; exact Or.inl h
    · have := leavesL_in ds base (base + ds.length) r h
      have e := descL_eq ds
      simp only [InN, InL, descT] at this ⊢
      omega
theorem leavesL_in : ∀ (ds : DList) (k base r : Nat), r ∈ leavesL ds k base → InL ds k base r
  | .nil, _, _, _, h => by simp [leavesL] at h
  | .cons d rr, k, base, r, h => by
    simp only [leavesL, List.mem_append] at h
    simp only [InL, DList.length, descS]
    rcases h with h | h
    · have := leavesN_in d k base r h
      simp only [InN] at this
      omega
    · have := leavesL_in rr (k + 1) (base + descT d) r h
      simp only [InL] at this
      omega
end

/-- a leaf slot of the array is a leaf of the tree -/
theorem isLeaf_group_cons {T : Array PNode} {i : Info} {d1 : DNode} {r : DList} {g b' : Nat}
    (hl : LayN T (.group i (.cons d1 r)) g b') (hw : gW (.group i (.cons d1 r)) = true) : isLeaf T[g]! = false := by
  obtain ⟨h1, h2, h3, h4, h5, h6⟩ := group_kind_facts hl hw
  simp only [DList.length] at h3
  unfold isLeaf
  have : ¬ T[g]!.a = T[g]!.b := by omega
  simp [h1, this]

mutual
theorem leaf_memN (T : Array PNode) : ∀ (d : DNode) (idx base : Nat), LayN T d idx base → gW d = true →
    ∀ r, InN d idx base r → isLeaf T[r]! = true → r ∈ leavesN d idx base
  | .ival _, idx, base, _, _, r, hr, _ => by
    simp only [InN, descT] at hr
    simp [leavesN]; omega
  | .create i ch, idx, base, hl, hw, r, hr, hleaf => by
    simp only [LayN] at hl
    simp only [gW, Bool.and_eq_true] at hw
    simp only [leavesN, List.mem_cons]
    simp only [InN, descT] at hr
    by_cases h : r = idx
    · exact Or.inl h
    · right
      exact leaf_memN T ch base (base + 1) hl.2.2.2 hw.2 r (by simp only [InN]; omega) hleaf
  | .group i ds, idx, base, hl, hw, r, hr, hleaf => by
    cases ds with
    | nil =>
      simp only [InN, descT, descL] at hr
      simp [leavesN, DList.isNil]; omega
    | cons d1 rr =>
      have hnl := isLeaf_group_cons hl hw
      obtain ⟨h1, h2, h3, h4, h5, h6⟩ := group_kind_facts hl hw
      simp only [leavesN, DList.isNil, Bool.false_eq_true, if_false]
      have e := descL_eq (.cons d1 rr)
      simp only [InN, descT] at hr
      have hne : r ≠ idx := fun h => by rw [h, hnl] at hleaf; cases hleaf
      exact leaf_memL T _ base _ h5 h6 r (by simp only [InL]; omega) hleaf
theorem leaf_memL (T : Array PNode) : ∀ (ds : DList) (k base : Nat), LayL T ds k base → gWL ds = true →
    ∀ r, InL ds k base r → isLeaf T[r]! = true → r ∈ leavesL ds k base
  | .nil, _, _, _, _, r, hr, _ => by simp [InL, DList.length, descS] at hr; omega
  | .cons d rr, k, base, hl, hw, r, hr, hleaf => by
    simp only [LayL] at hl
    simp only [gWL, Bool.and_eq_true] at hw
    simp only [leavesL, List.mem_append]
    simp only [InL, DList.length, descS] at hr
    by_cases h : r = k ∨ (base ≤ r ∧ r < base + descT d)
    · left; exact leaf_memN T d k base hl.1 hw.1 r h hleaf
    · right
      exact leaf_memL T rr (k + 1) (base + descT d) hl.2 hw.2 r (by simp only [InL]; omega) hleaf
end

end MythVerif.PiDag
