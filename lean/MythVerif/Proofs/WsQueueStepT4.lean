import MythVerif.Proofs.WsQueueTac
/-! Per-program-counter preservation lemmas of the work-stealing queue invariant (generated list, uniform script). -/
namespace MythVerif.Wsq

set_option maxHeartbeats 1000000 in
theorem t_wk4u (s s' : St) (p : Pid) (r) : Inv s → s.tpc p = .wk4u r → stepT s p = some s' → Inv s' := by wsq_tstep

set_option maxHeartbeats 1000000 in
theorem t_wk5 (s s' : St) (p : Pid) (b) : Inv s → s.tpc p = .wk5 b → stepT s p = some s' → Inv s' := by wsq_tstep

set_option maxHeartbeats 1000000 in
theorem t_wk6 (s s' : St) (p : Pid) : Inv s → s.tpc p = .wk6 → stepT s p = some s' → Inv s' := by wsq_tstep

set_option maxHeartbeats 1000000 in
theorem t_tpl (s s' : St) (p : Pid) (e) : Inv s → s.tpc p = .tpl e → stepT s p = some s' → Inv s' := by wsq_tstep

set_option maxHeartbeats 1000000 in
theorem t_tp1 (s s' : St) (p : Pid) (e) : Inv s → s.tpc p = .tp1 e → stepT s p = some s' → Inv s' := by wsq_tstep

end MythVerif.Wsq
