import MythVerif.Proofs.DagRecPath
/-!
The recorder's top-down earliest-start times (`est`) are a feasible potential of the dependency
graph (`edgesT`): along every edge `u → v`, `est u + dur u ≤ est v`; all edges go forward in
program order.  Basic facts: position of the last interval, `est` of the first interval, finish
time of the last interval of a task.
-/
namespace MythVerif.DagRec
open MythVerif.PiDag (PEdge)

/-- the functions `E` (start time) and `D` (duration) on positions agree, from position `o` on,
    with the `est` / `t_1` of the leaf infos `L` -/
def Agree (E D : Nat → Nat) (o : Nat) (L : List Info) : Prop :=
  ∀ j (h : j < L.length), E (o + j) = L[j].c.est ∧ D (o + j) = L[j].c.t1

theorem Agree.append {E D : Nat → Nat} {o : Nat} {A B : List Info} (h : Agree E D o (A ++ B)) :
    Agree E D o A ∧ Agree E D (o + A.length) B := by
  constructor
  · intro j hj
    have := h j (by simp; omega)
    rwa [List.getElem_append_left hj] at this
  · intro j hj
    have := h (A.length + j) (by simp; omega)
    rw [List.getElem_append_right (by omega)] at this
    simpa [Nat.add_assoc] using this

theorem Agree.cons {E D : Nat → Nat} {o : Nat} {i : Info} {L : List Info} (h : Agree E D o (i :: L)) :
    (E o = i.c.est ∧ D o = i.c.t1) ∧ Agree E D (o + 1) L := by
  constructor
  · have := h 0 (by simp)
    simpa only [Nat.add_zero, List.getElem_cons_zero] using this
  · intro j hj
    have := h (j + 1) (by simp; omega)
    simpa [Nat.add_assoc, Nat.add_comm 1 j] using this

mutual
theorem leafInfosTree_length (v : Variant) : ∀ (t : Tree) (c : Cursor),
    (leafInfosTree v t c).length = (leavesTree t).length
  | .ival _ _, _ => by simp [leafInfosTree, leavesTree]
  | .create r ch, c => by
    simp [leafInfosTree, leavesTree, leafInfosTree_length v ch]
  | .group _ f, c => by simp [leafInfosTree, leavesTree, leafInfosForest_length v f]
theorem leafInfosForest_length (v : Variant) : ∀ (f : Forest) (c : Cursor),
    (leafInfosForest v f c).length = (leavesForest f).length
  | .nil, _ => by simp [leafInfosForest, leavesForest]
  | .cons t r, c => by
    simp [leafInfosForest, leavesForest, leafInfosTree_length v t, leafInfosForest_length v r]
end

theorem le_maxFinish : ∀ (L : List Info) (j : Nat) (h : j < L.length), L[j].c.est + L[j].c.t1 ≤ maxFinish L
  | [], j, h => by simp at h
  | i :: L, 0, _ => by simp only [maxFinish, List.getElem_cons_zero]; exact Nat.le_max_left _ _
  | i :: L, j + 1, h => by
    simp only [maxFinish, List.getElem_cons_succ]
    exact Nat.le_trans (le_maxFinish L j (by simpa using h)) (Nat.le_max_right _ _)

theorem exists_maxFinish : ∀ (L : List Info), L ≠ [] →
    ∃ j, ∃ h : j < L.length, L[j].c.est + L[j].c.t1 = maxFinish L
  | [], h => absurd rfl h
  | [i], _ => ⟨0, by simp, by simp [maxFinish]⟩
  | i :: i' :: L, _ => by
    obtain ⟨j, hj, e⟩ := exists_maxFinish (i' :: L) (by simp)
    by_cases hc : maxFinish (i' :: L) ≤ i.c.est + i.c.t1
    · refine ⟨0, by simp, ?_⟩
      rw [maxFinish]
      simp only [List.getElem_cons_zero, Nat.max_def]
      split <;> omega
    · refine ⟨j + 1, by simp at hj ⊢; omega, ?_⟩
      rw [maxFinish, List.getElem_cons_succ, e]
      simp only [Nat.max_def]
      split <;> omega

theorem Agree.finish_le {E D : Nat → Nat} {o : Nat} {L : List Info} (h : Agree E D o L) (j : Nat)
    (hj : j < L.length) : E (o + j) + D (o + j) ≤ maxFinish L := by
  rw [(h j hj).1, (h j hj).2]; exact le_maxFinish L j hj

/-! ### well-nestedness of the children -/

theorem wnAny_of_last {b : Bool} {t : Tree} (h : isLast b t = true) : WnAny t := Or.inr (Or.inl ⟨b, h⟩)
theorem wnAny_of_item {b : Bool} {t : Tree} (h : wnItem b t = true) : WnAny t := Or.inl ⟨b, h⟩
theorem wnAny_of_task {t : Tree} (h : wnTask t = true) : WnAny t := Or.inr (Or.inr h)

theorem isLast_ival {b : Bool} {t : Tree} (h : isLast b t = true) : ∃ k r, t = .ival k r := by
  cases t with
  | ival k r => exact ⟨k, r, rfl⟩
  | create _ _ => simp [isLast] at h
  | group _ _ => simp [isLast] at h

/-! ### the first interval starts at the cursor's `est` -/

mutual
theorem leafInfosTree_head (v : Variant) : ∀ (t : Tree) (c : Cursor), WnAny t →
    ∃ i L, leafInfosTree v t c = i :: L ∧ i.c.est = c.est
  | .ival k r, c, _ => ⟨_, [], rfl, by simp [endInterval]⟩
  | .create r ch, c, _ => ⟨_, _, rfl, by simp [endInterval]⟩
  | .group k f, c, h => by
    obtain ⟨b, hb⟩ := wnAny_group h
    simpa [leafInfosTree] using leafInfosForest_head v f c b hb
theorem leafInfosForest_head (v : Variant) : ∀ (f : Forest) (c : Cursor) (b : Bool), wnForest b f = true →
    ∃ i L, leafInfosForest v f c = i :: L ∧ i.c.est = c.est
  | .nil, _, _, h => by simp [wnForest] at h
  | .cons t .nil, c, b, h => by
    simp only [wnForest] at h
    obtain ⟨i, L, e, hi⟩ := leafInfosTree_head v t c (wnAny_of_last h)
    exact ⟨i, L ++ leafInfosForest v .nil (viewTree v t c).2, by simp [leafInfosForest, e], hi⟩
  | .cons t (.cons t' r), c, b, h => by
    simp only [wnForest, Bool.and_eq_true] at h
    obtain ⟨i, L, e, hi⟩ := leafInfosTree_head v t c (wnAny_of_item h.1)
    exact ⟨i, L ++ leafInfosForest v (.cons t' r) (viewTree v t c).2, by simp [leafInfosForest, e], hi⟩
end

theorem Agree.headT {E D : Nat → Nat} {o : Nat} {v : Variant} {t : Tree} {c : Cursor}
    (h : Agree E D o (leafInfosTree v t c)) (hw : WnAny t) : E o = c.est := by
  obtain ⟨i, L, e, hi⟩ := leafInfosTree_head v t c hw
  rw [e] at h
  rw [← hi]; exact h.cons.1.1

theorem Agree.headF {E D : Nat → Nat} {o : Nat} {v : Variant} {f : Forest} {c : Cursor} {b : Bool}
    (h : Agree E D o (leafInfosForest v f c)) (hw : wnForest b f = true) : E o = c.est := by
  obtain ⟨i, L, e, hi⟩ := leafInfosForest_head v f c b hw
  rw [e] at h
  rw [← hi]; exact h.cons.1.1

theorem leavesForest_pos {b : Bool} {f : Forest} (hw : wnForest b f = true) : 0 < (leavesForest f).length := by
  obtain ⟨i, L, e, _⟩ := leafInfosForest_head .fixed f {} b hw
  rw [← leafInfosForest_length .fixed f {}, e]; simp

theorem leavesTree_pos {t : Tree} (hw : WnAny t) : 0 < (leavesTree t).length := by
  obtain ⟨i, L, e, _⟩ := leafInfosTree_head .fixed t {} hw
  rw [← leafInfosTree_length .fixed t {}, e]; simp

/-! ### the last interval lies inside the node -/

mutual
theorem lastT_range : ∀ (x : Tree) (o : Nat), WnAny x →
    o ≤ lastT x o ∧ lastT x o < o + (leavesTree x).length
  | .ival _ _, o, _ => by simp [lastT, leavesTree]
  | .create _ _, o, _ => by simp [lastT, leavesTree]
  | .group k f, o, h => by
    obtain ⟨b, hb⟩ := wnAny_group h
    simpa [lastT, leavesTree] using lastF_range f o o b hb
theorem lastF_range : ∀ (f : Forest) (o d : Nat) (b : Bool), wnForest b f = true →
    o ≤ lastF f o d ∧ lastF f o d < o + (leavesForest f).length
  | .nil, _, _, _, h => by simp [wnForest] at h
  | .cons x .nil, o, d, b, h => by
    simp only [wnForest] at h
    simpa [lastF, leavesForest] using lastT_range x o (wnAny_of_last h)
  | .cons x (.cons y r), o, d, b, h => by
    simp only [wnForest, Bool.and_eq_true] at h
    have ih := lastF_range (.cons y r) (o + (leavesTree x).length) (lastT x o) b h.2
    rw [show lastF (.cons x (.cons y r)) o d = lastF (.cons y r) (o + (leavesTree x).length) (lastT x o) from rfl,
      show leavesForest (.cons x (.cons y r)) = leavesTree x ++ leavesForest (.cons y r) from rfl,
      List.length_append]
    omega
end

/-! ### what `viewTree_span` says about the leaves of one node -/

/-- `t_inf` of the node the subtree `x` is recorded as when its task's cursor is `c` -/
abbrev tinfT (v : Variant) (x : Tree) (c : Cursor) : Nat := (viewTree v x c).1.i.c.tinf

theorem span_leaves (v : Variant) (x : Tree) (c : Cursor) (h : WnAny x) :
    maxFinish (leafInfosTree v x c) = c.est + tinfT v x c + (viewTree v x c).1.sub :=
  ((viewTree_span v x c).1 h).2.1

theorem span_next (v : Variant) (x : Tree) (c : Cursor) {b : Bool} (h : wnItem b x = true) :
    (viewTree v x c).2.est = c.est + tinfT v x c :=
  (viewTree_span v x c).2 b h

theorem sub_ival (v : Variant) (k : NKind) (r : Raw) (c : Cursor) : (viewTree v (.ival k r) c).1.sub = 0 :=
  View.sub_none _ (by simp [viewTree])

theorem sub_group (v : Variant) (k : NKind) (f : Forest) (c : Cursor) : (viewTree v (.group k f) c).1.sub = 0 :=
  View.sub_none _ (by simp [viewTree])

theorem leafInfosForest_cons (v : Variant) (x : Tree) (rest : Forest) (c : Cursor) :
    leafInfosForest v (.cons x rest) c = leafInfosTree v x c ++ leafInfosForest v rest (viewTree v x c).2 := by
  rw [leafInfosForest]

theorem leavesForest_cons (x : Tree) (rest : Forest) :
    leavesForest (.cons x rest) = leavesTree x ++ leavesForest rest := by
  rw [leavesForest]

/-- splitting the agreement at a non-last child `x`: the successor starts at `est + t_inf(x)` -/
theorem Agree.junction {E D : Nat → Nat} {o : Nat} {v : Variant} {x : Tree} {rest : Forest} {c : Cursor} {b : Bool}
    (h : Agree E D o (leafInfosForest v (.cons x rest) c)) (hx : wnItem b x = true) (hr : wnForest b rest = true) :
    Agree E D o (leafInfosTree v x c) ∧
    Agree E D (o + (leavesTree x).length) (leafInfosForest v rest (viewTree v x c).2) ∧
    E (o + (leavesTree x).length) = c.est + tinfT v x c := by
  rw [leafInfosForest_cons] at h
  obtain ⟨h1, h2⟩ := h.append
  rw [leafInfosTree_length] at h2
  exact ⟨h1, h2, by rw [h2.headF hr, span_next v x c hx]⟩

/-- a create interval finishes at `est + t_inf(create node)` -/
theorem Agree.create_finish {E D : Nat → Nat} {o : Nat} {v : Variant} {r : Raw} {ch : Tree} {c : Cursor}
    (h : Agree E D o (leafInfosTree v (.create r ch) c)) :
    E o = c.est ∧ D o = tinfT v (.create r ch) c ∧
    Agree E D (o + 1) (leafInfosTree v ch (cursorAfter (endInterval .createTask r c) .create)) ∧
    (cursorAfter (endInterval .createTask r c) .create).est = c.est + tinfT v (.create r ch) c := by
  simp only [leafInfosTree] at h
  obtain ⟨⟨h1, h2⟩, h3⟩ := h.cons
  refine ⟨by simpa [endInterval] using h1, by simpa [tinfT, endInterval, viewTree] using h2, h3, ?_⟩
  simp [tinfT, cursorAfter, endInterval, viewTree]

/-- every interval of a section / `other` child finishes before the successor starts -/
theorem Agree.finish_le_next {E D : Nat → Nat} {o : Nat} {v : Variant} {x : Tree} {c : Cursor}
    (h : Agree E D o (leafInfosTree v x c)) (hw : WnAny x) (hnc : ∀ r ch, x ≠ .create r ch)
    (u : Nat) (h1 : o ≤ u) (h2 : u < o + (leavesTree x).length) : E u + D u ≤ c.est + tinfT v x c := by
  have := h.finish_le (u - o) (by rw [leafInfosTree_length]; omega)
  rw [show o + (u - o) = u by omega, span_leaves v x c hw] at this
  cases x with
  | ival k r => rwa [sub_ival, Nat.add_zero] at this
  | create r ch => exact absurd rfl (hnc r ch)
  | group k f => rwa [sub_group, Nat.add_zero] at this

/-! ### feasibility: `est u + dur u ≤ est v` along every edge, edges go forward -/

/-- the edge stays inside `[lo, hi)`, goes forward, and respects the start times -/
def EdgeOK (E D : Nat → Nat) (lo hi : Nat) (e : PEdge) : Prop :=
  lo ≤ e.u ∧ e.u < e.v ∧ e.v < hi ∧ E e.u + D e.u ≤ E e.v

theorem EdgeOK.mono {E D : Nat → Nat} {lo hi lo' hi' : Nat} {e : PEdge} (h : EdgeOK E D lo hi e)
    (h1 : lo' ≤ lo) (h2 : hi ≤ hi') : EdgeOK E D lo' hi' e :=
  ⟨by have := h.1; omega, h.2.1, by have := h.2.2.1; omega, h.2.2.2⟩

/-- the `create` / `end` edges of the children of a section: a `create` edge goes from a create
    interval to the next position and is tight; an `end` edge starts inside the section -/
theorem createF_ok (v : Variant) (E D : Nat → Nat) (t : Nat) : ∀ (f : Forest) (o : Nat) (c : Cursor),
    wnForest false f = true → Agree E D o (leafInfosForest v f c) → ∀ e ∈ createEdgesF t f o,
      (e.kind = .create ∧ o ≤ e.u ∧ e.v = e.u + 1 ∧ e.v < o + (leavesForest f).length ∧ E e.u + D e.u = E e.v) ∨
      (e.kind = .end_ ∧ o ≤ e.u ∧ e.u < o + (leavesForest f).length ∧ e.v = t)
  | .nil, _, _, h, _ => by simp [wnForest] at h
  | .cons x .nil, o, c, h, _ => by
    simp only [wnForest] at h
    obtain ⟨k, r, rfl⟩ := isLast_ival h
    simp [createEdgesF, createOfT]
  | .cons x (.cons y r'), o, c, h, ha => by
    simp only [wnForest, Bool.and_eq_true] at h
    obtain ⟨a1, a2, _⟩ := ha.junction h.1 h.2
    have ih := createF_ok v E D t (.cons y r') (o + (leavesTree x).length) (viewTree v x c).2 h.2 a2
    have hpos := leavesForest_pos h.2
    intro e he
    rw [createEdgesF, List.mem_append] at he
    rw [leavesForest_cons, List.length_append]
    rcases he with he | he
    · cases x with
      | ival _ _ => simp [createOfT] at he
      | group _ _ => simp [createOfT] at he
      | create rr ch =>
        have hch : wnTask ch = true := by simp only [wnItem, Bool.and_eq_true] at h; exact h.1.2
        obtain ⟨b1, b2, b3, b4⟩ := a1.create_finish
        have hl := lastT_range ch (o + 1) (wnAny_of_task hch)
        simp only [createOfT, List.mem_cons, List.not_mem_nil, or_false] at he
        simp only [leavesTree, List.length_cons] at hl ⊢
        rcases he with rfl | rfl
        · left
          have := b3.headT (wnAny_of_task hch)
          have hp := leavesTree_pos (wnAny_of_task hch)
          refine ⟨rfl, Nat.le_refl _, rfl, by simp only; omega, ?_⟩
          simp only
          omega
        · right
          exact ⟨rfl, by simp only; omega, by simp only; omega, rfl⟩
    · rcases ih e he with q | q
      · left; exact ⟨q.1, by omega, q.2.2.1, by omega, q.2.2.2.2⟩
      · right; exact ⟨q.1, by omega, by omega, q.2.2.2⟩

theorem groupEdgesF_cons2 (x y : Tree) (r : Forest) (o : Nat) :
    groupEdgesF (.cons x (.cons y r)) o =
      itemEdgesT (o + (leavesTree x).length) x o ++ groupEdgesF (.cons y r) (o + (leavesTree x).length) := by
  simp [groupEdgesF, Forest.isNil]

theorem edgesSubF_cons (x : Tree) (r : Forest) (o : Nat) :
    edgesSubF (.cons x r) o = edgesT x o ++ edgesSubF r (o + (leavesTree x).length) := by
  rw [edgesSubF]

mutual
/-- every edge of the subtree goes forward inside the subtree, and the target starts no earlier
    than the source finishes -/
theorem feasT (v : Variant) (E D : Nat → Nat) : ∀ (x : Tree) (o : Nat) (c : Cursor), WnAny x →
    Agree E D o (leafInfosTree v x c) → ∀ e ∈ edgesT x o, EdgeOK E D o (o + (leavesTree x).length) e
  | .ival _ _, _, _, _, _ => by simp [edgesT]
  | .create r ch, o, c, h, ha => by
    have hch := wnAny_create h
    obtain ⟨_, _, b3, _⟩ := ha.create_finish
    intro e he
    simp only [edgesT] at he
    have := feasT v E D ch (o + 1) _ (wnAny_of_task hch) b3 e he
    simp only [leavesTree, List.length_cons]
    exact this.mono (by omega) (by omega)
  | .group k f, o, c, h, ha => by
    obtain ⟨b, hb⟩ := wnAny_group h
    simp only [leafInfosTree] at ha
    intro e he
    simp only [edgesT] at he
    simp only [leavesTree]
    exact feasF v E D f o c b hb ha e he
theorem feasF (v : Variant) (E D : Nat → Nat) : ∀ (f : Forest) (o : Nat) (c : Cursor) (b : Bool),
    wnForest b f = true → Agree E D o (leafInfosForest v f c) →
    ∀ e ∈ groupEdgesF f o ++ edgesSubF f o, EdgeOK E D o (o + (leavesForest f).length) e
  | .nil, _, _, _, h, _ => by simp [wnForest] at h
  | .cons x .nil, o, c, b, h, ha => by
    simp only [wnForest] at h
    rw [leafInfosForest_cons] at ha
    have a1 := ha.append.1
    intro e he
    simp only [groupEdgesF, Forest.isNil, if_true, edgesSubF, List.nil_append, List.append_nil] at he
    have := feasT v E D x o c (wnAny_of_last h) a1 e he
    simpa [leavesForest] using this
  | .cons x (.cons y r'), o, c, b, h, ha => by
    simp only [wnForest, Bool.and_eq_true] at h
    obtain ⟨a1, a2, a3⟩ := ha.junction h.1 h.2
    have hwx := wnAny_of_item h.1
    have ihx := feasT v E D x o c hwx a1
    have ihr := feasF v E D (.cons y r') (o + (leavesTree x).length) _ b h.2 a2
    have hpos := leavesForest_pos h.2
    have hl := lastT_range x o hwx
    intro e he
    rw [leavesForest_cons, List.length_append]
    rw [groupEdgesF_cons2, edgesSubF_cons] at he
    simp only [List.mem_append] at he
    rcases he with (he | he) | (he | he)
    · simp only [itemEdgesT, List.mem_cons] at he
      rcases he with rfl | he
      · -- the continuation edge
        refine ⟨hl.1, hl.2, by simp only; omega, ?_⟩
        simp only
        rw [a3]
        cases x with
        | create rr ch =>
          obtain ⟨b1, b2, _, _⟩ := a1.create_finish
          simp only [lastT]; omega
        | ival k r => exact a1.finish_le_next hwx (by intro _ _ h; cases h) _ hl.1 hl.2
        | group k f => exact a1.finish_le_next hwx (by intro _ _ h; cases h) _ hl.1 hl.2
      · -- the create / end edges of a section
        cases x with
        | ival _ _ => simp [sectionEdgesT] at he
        | create _ _ => simp [sectionEdgesT] at he
        | group k f' =>
          simp only [sectionEdgesT] at he
          split at he
          · rename_i hk
            subst hk
            have hf' : wnForest false f' = true := by simpa [wnItem] using h.1
            have a1' := a1
            simp only [leafInfosTree] at a1'
            have hlen : (leavesTree (.group .section f')).length = (leavesForest f').length := by
              simp [leavesTree]
            rcases createF_ok v E D _ f' o c hf' a1' e he with q | q
            · exact ⟨q.2.1, by omega, by omega, by omega⟩
            · refine ⟨q.2.1, by omega, by omega, ?_⟩
              rw [q.2.2.2, a3]
              exact a1.finish_le_next hwx (by intro _ _ h; cases h) _ q.2.1 (by omega)
          · simp at he
    · exact (ihr e (List.mem_append.2 (Or.inl he))).mono (by omega) (by omega)
    · exact (ihx e he).mono (by omega) (by omega)
    · exact (ihr e (List.mem_append.2 (Or.inr he))).mono (by omega) (by omega)
end

end MythVerif.DagRec
