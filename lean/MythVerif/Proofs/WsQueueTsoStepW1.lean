import MythVerif.Proofs.WsQueueTsoTac
/-! Preservation lemmas of the TSO invariant (wsapi take: quick check, trylock, base increment, fence). -/
namespace MythVerif.WsqTso
open MythVerif.Wsq

theorem t_wq0 (s s' : St) (p : Pid) : Inv s → s.tpc p = .wq0 → stepT s p = some s' → Inv s' := by
  intro h heq hs
  have hb := h.tbufE p (by simp [heq, mayBuf])
  simp only [stepT, heq, hb, viewTop_nil] at hs
  simp at hs; subst hs
  tso_fastT h p []

theorem t_wq1 (s s' : St) (p : Pid) (t) : Inv s → s.tpc p = .wq1 t → stepT s p = some s' → Inv s' := by
  intro h heq hs
  have hb := h.tbufE p (by simp [heq, mayBuf])
  simp only [stepT, heq, hb, viewBase_nil] at hs
  split at hs
  all_goals (simp at hs; subst hs)
  all_goals tso_fastT h p []

theorem t_wtl (s s' : St) (p : Pid) : Inv s → s.tpc p = .wtl → stepT s p = some s' → Inv s' := by
  intro h heq hs
  have hb := h.tbufE p (by simp [heq, mayBuf])
  simp only [stepT, heq, hb] at hs
  simp at hs
  split at hs
  all_goals (simp at hs; subst hs)
  all_goals tso_fastT h p []

theorem t_wk1 (s s' : St) (p : Pid) : Inv s → s.tpc p = .wk1 → stepT s p = some s' → Inv s' := by
  intro h heq hs
  have hb := h.tbufE p (by simp [heq, mayBuf])
  simp only [stepT, heq, hb, viewBase_nil] at hs
  simp at hs; subst hs
  tso_fastT h p []

theorem t_wkf (s s' : St) (p : Pid) (b) : Inv s → s.tpc p = .wkf b → stepT s p = some s' → Inv s' := by
  intro h heq hs
  have hcfg := h.cfg
  simp only [stepT, heq, fenceOk, hcfg, code_wtakeFence] at hs
  split at hs
  · rename_i hb
    simp at hb
    simp at hs; subst hs
    tso_fastT h p [wkf]
  · simp at hs

end MythVerif.WsqTso
