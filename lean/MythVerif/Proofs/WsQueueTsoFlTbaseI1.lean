import MythVerif.Proofs.WsQueueTsoTac
/-! Preservation lemmas of the TSO invariant (generated per program counter of the owner): drain of a passer's store (baseI) while the owner is at idle, pu0, pu0f. -/
namespace MythVerif.WsqTso
open MythVerif.Wsq

theorem f_T_baseI_idle (s : St) (p : Pid) (e0 : Elem) (ok : Bool) : Inv s → s.opc = .idle → s.lock = .thief p →
    s.bufT p = [.baseI (s.lb - 1) e0] → s.tpc p = .tp4 ok → s.ptr (s.lb - 1) = some e0 →
    Inv (applySto { s with bufT := upd s.bufT p [] } (.baseI (s.lb - 1) e0)) := by
  intro h hopc hl h0 h1 h2
  have hmw := mwin_cons s.A s.ptr s.lb s.top _ e0 h.mwin h2
  simp only [applySto]
  simp only [hopc, resetting] at hmw
  tso_coreO h hopc [tp3, tp4, carryC]
  constructor
  case mwin => simp only [hopc, resetting, upd_apply, applySto]; exact hmw
  tso_goalsO h hopc

theorem f_T_baseI_pu0 (s : St) (p : Pid) (e0 : Elem) (ok : Bool) (e) : Inv s → s.opc = .pu0 e → s.lock = .thief p →
    s.bufT p = [.baseI (s.lb - 1) e0] → s.tpc p = .tp4 ok → s.ptr (s.lb - 1) = some e0 →
    Inv (applySto { s with bufT := upd s.bufT p [] } (.baseI (s.lb - 1) e0)) := by
  intro h hopc hl h0 h1 h2
  have hmw := mwin_cons s.A s.ptr s.lb s.top _ e0 h.mwin h2
  simp only [applySto]
  simp only [hopc, resetting] at hmw
  tso_coreO h hopc [tp3, tp4, carryC]
  constructor
  case mwin => simp only [hopc, resetting, upd_apply, applySto]; exact hmw
  tso_goalsO h hopc

theorem f_T_baseI_pu0f (s : St) (p : Pid) (e0 : Elem) (ok : Bool) (e t) : Inv s → s.opc = .pu0f e t → s.lock = .thief p →
    s.bufT p = [.baseI (s.lb - 1) e0] → s.tpc p = .tp4 ok → s.ptr (s.lb - 1) = some e0 →
    Inv (applySto { s with bufT := upd s.bufT p [] } (.baseI (s.lb - 1) e0)) := by
  intro h hopc hl h0 h1 h2
  have hmw := mwin_cons s.A s.ptr s.lb s.top _ e0 h.mwin h2
  simp only [applySto]
  simp only [hopc, resetting] at hmw
  tso_coreO h hopc [tp3, tp4, pu0f, carryC]
  constructor
  case mwin => simp only [hopc, resetting, upd_apply, applySto]; exact hmw
  tso_goalsO h hopc

end MythVerif.WsqTso
