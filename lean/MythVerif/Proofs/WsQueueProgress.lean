import MythVerif.Proofs.WsQueueSC
/-! Progress: the `none` branches of the model that exist only because of a ghost look-up are
    unreachable, so a disabled model step can never hide an implementation behaviour. -/
namespace MythVerif.Wsq

theorem length_pos_getLast? (l : List Elem) (h : 0 < l.length) : ∃ x, l.getLast? = some x := by
  cases hl : l.getLast? with
  | some x => exact ⟨x, rfl⟩
  | none => rw [List.getLast?_eq_none_iff] at hl; subst hl; simp at h

/-- the owner can always take its next step (the ghost look-ups never block) unless it is idle or dead -/
theorem progress_owner (s : St) (h : Inv s) (h1 : s.opc ≠ .idle) (h2 : s.opc ≠ .aborted) (h3 : s.opc ≠ .assertFail) :
    (stepO s).isSome = true := by
  cases hpc : s.opc <;> simp only [stepO, hpc]
  case idle => exact absurd hpc h1
  case aborted => exact absurd hpc h2
  case assertFail => exact absurd hpc h3
  case po2 t =>
    split
    · rename_i hlt
      have e1 := h.ltop (by simp [hpc, topSync])
      have e2 := h.lbase (by simp [hpc, baseSync])
      have e3 := h.po2 t hpc
      have e4 := h.len
      simp only [hpc, midPop, if_true] at e1
      obtain ⟨x, hx⟩ := length_pos_getLast? s.A (by split at e2 <;> omega)
      simp [hx]
    · rfl
  case po4 t =>
    split
    · rename_i hlt
      have e1 := h.ltop (by simp [hpc, topSync])
      have e2 := h.lbase (by simp [hpc, baseSync])
      have e3 := h.po4 t hpc
      have e4 := h.len
      simp only [hpc, midPop, if_true] at e1
      obtain ⟨x, hx⟩ := length_pos_getLast? s.A (by split at e2 <;> omega)
      simp [hx]
    · rfl
  all_goals (first | rfl | (split <;> rfl))

theorem owner_unlocked_sync (s : St) (h : Inv s) (p : Pid) (hl : s.lock = .thief p) :
    topSync s.opc = true ∧ baseSync s.opc = true := by
  have h0 : ownerLocked s.opc = false := by
    cases ho : ownerLocked s.opc with
    | false => rfl
    | true => have := h.lockO.2 ho; rw [hl] at this; cases this
  cases hpc : s.opc <;> simp [hpc, ownerLocked, topSync, baseSync] at h0 ⊢

/-- a participant can always take its next step, except while it waits for the callback -/
theorem progress_thief (s : St) (h : Inv s) (p : Pid) (h1 : s.tpc p ≠ .idle) (h2 : ∀ b r, s.tpc p ≠ .wkd b r) :
    (stepT s p).isSome = true := by
  cases hpc : s.tpc p <;> simp only [stepT, hpc]
  case idle => exact absurd hpc h1
  case wkd b r => exact absurd hpc (h2 b r)
  case tk2 b =>
    split
    · rename_i hlt
      have hl := (h.lockT p).2 (by simp [hpc, thiefLocked])
      obtain ⟨hs1, hs2⟩ := owner_unlocked_sync s h p hl
      have e1 := h.ltop hs1
      have e3 := h.tk2 p b hpc
      have e4 := h.len
      cases hA : s.A with
      | nil => simp [hA] at e4; split at e1 <;> omega
      | cons x A' => simp
    · rfl
  all_goals (first | rfl | (split <;> rfl))

/-- the callback's verdict can always be delivered -/
theorem progress_decide (s : St) (h : Inv s) (p : Pid) (b : Int) (r : Option Elem) (hpc : s.tpc p = .wkd b r)
    (a : Bool) : (stepD s p a).isSome = true := by
  simp only [stepD, hpc]
  split
  · have e := h.wkd p b r hpc
    have e4 := h.len
    cases hA : s.A with
    | nil => simp [hA] at e4; omega
    | cons x A' => simp
  · rfl
end MythVerif.Wsq
