import MythVerif.Proofs.WsQueueTsoTac
/-! Preservation lemmas of the TSO invariant (drain of a shift entry: the slots of the live window
    move in memory and the logical window moves with them). -/
namespace MythVerif.WsqTso
open MythVerif.Wsq

/-- a buffered shift entry is the `memmove` of the logical window by the pending offset -/
theorem shift_head (s : St) (h : Inv s) (lo hi off : Int) (rest : List Sto) (hb : s.bufO = .shift lo hi off :: rest) :
    lo = s.lb ∧ hi = s.lt ∧ off = s.sh ∧ resetting s.opc = true := by
  cases hpc : s.opc
  all_goals (cases h; simp only [hpc, ownerLocked, carry, resetting, ownerFlight] at *)
  all_goals grind [CarryShape, Pu2Shape, PofShape, Po6Shape, Po8Shape, Po9Shape, InsShape, Rc1Shape, Rc2Shape, RcPre, RcShape]

set_option maxHeartbeats 4000000 in
theorem f_O_shift (s s' : St) (lo hi off : Int) (rest : List Sto) : Inv s → s.bufO = .shift lo hi off :: rest →
    s' = applySto { s with bufO := rest } (.shift lo hi off) → Inv s' := by
  intro h hb hs
  subst hs
  obtain ⟨rfl, rfl, rfl, hres⟩ := shift_head s h lo hi off rest hb
  have hmw := mwin_shift s.A s.ptr s.lb s.lt s.sh h.len (fun k hk => h.mwin k hk (Or.inr hres))
  simp only [applySto]
  cases hpc : s.opc
  all_goals (cases h; simp only [hpc, ownerLocked, carry, resetting, ownerFlight] at *)
  all_goals (
    constructor
    all_goals (try simp only [ownerLocked, carry, resetting, ownerFlight, upd_apply, applySto])
    case mwin => first | (intro k hk _; exact hmw k hk) | skip
    tso_rest)

end MythVerif.WsqTso
