import MythVerif.Proofs.WsQueueTsoTac
/-! A buffered shift entry is the `memmove` of the logical window (used by the per-pc lemmas for the
    drain of a shift entry: the slots of the live window move in memory and the logical window moves
    with them). -/
namespace MythVerif.WsqTso
open MythVerif.Wsq

/-- a buffered shift entry is the `memmove` of the logical window by the pending offset -/
theorem shift_head (s : St) (h : Inv s) (lo hi off : Int) (rest : List Sto) (hb : s.bufO = .shift lo hi off :: rest) :
    lo = s.lb ∧ hi = s.lt ∧ off = s.sh ∧ resetting s.opc = true := by
  cases hpc : s.opc
  all_goals tso_shapes_core h hpc

end MythVerif.WsqTso
