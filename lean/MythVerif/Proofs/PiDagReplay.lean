import MythVerif.Model.PiDag
/-! The chronological traversal of a well-formed DAG starts and ends every leaf exactly once,
whatever order the pending events are dequeued in. -/
namespace MythVerif.PiDag

/-! ### generic helpers -/

theorem modify_get! {α} [Inhabited α] (a : Array α) (i j : Nat) (f : α → α) :
    (a.modify i f)[j]! = if i = j ∧ i < a.size then f a[j]! else a[j]! := by
  by_cases hj : j < a.size
  · simp only [getElem!_pos, hj, Array.size_modify, Array.getElem_modify]
    by_cases h : i = j <;> simp [h, hj]
  · have h1 : (a.modify i f)[j]! = default := by
      apply getElem!_neg; simpa using hj
    have h2 : a[j]! = default := by apply getElem!_neg; exact hj
    rw [h1, h2]
    split
    · rename_i h; omega
    · rfl

theorem countP_eraseIdx {α} (p : α → Bool) : ∀ (l : List α) (k : Nat) (h : k < l.length),
    l.countP p = (l.eraseIdx k).countP p + (if p l[k] then 1 else 0)
  | [], k, h => by simp at h
  | a :: l, 0, _ => by simp [List.countP_cons]
  | a :: l, k + 1, h => by
    have := countP_eraseIdx p l k (by simpa using h)
    simp only [List.eraseIdx_cons_succ, List.countP_cons, List.getElem_cons_succ, this]
    omega

def rsum (n : Nat) (f : Nat → Nat) : Nat := ((List.range n).map f).sum

theorem rsum_succ (n : Nat) (f : Nat → Nat) : rsum (n + 1) f = rsum n f + f n := by
  simp [rsum, List.range_succ, List.map_append, List.sum_append]

theorem rsum_congr (n : Nat) (f g : Nat → Nat) (h : ∀ x < n, f x = g x) : rsum n f = rsum n g := by
  induction n with
  | zero => rfl
  | succ n ih => rw [rsum_succ, rsum_succ, ih (fun x hx => h x (by omega)), h n (by omega)]

theorem rsum_update (n u : Nat) (hu : u < n) (f g : Nat → Nat) (h : ∀ x < n, x ≠ u → g x = f x) :
    rsum n g + f u = rsum n f + g u := by
  induction n with
  | zero => omega
  | succ n ih =>
    rw [rsum_succ, rsum_succ]
    by_cases hn : u = n
    · subst hn
      have := rsum_congr u g f (fun x hx => h x (by omega) (by omega))
      omega
    · have := ih (by omega) (fun x hx hxu => h x (by omega) hxu)
      have := h n (by omega) (fun e => hn e.symm)
      omega

theorem rsum_term_le (n u : Nat) (hu : u < n) (f : Nat → Nat) : f u ≤ rsum n f := by
  induction n with
  | zero => omega
  | succ n ih =>
    rw [rsum_succ]
    by_cases hn : u = n
    · subst hn; omega
    · have := ih (by omega); omega

theorem rsum_eq_zero (n : Nat) (f : Nat → Nat) (h : ∀ u < n, f u = 0) : rsum n f = 0 := by
  induction n with
  | zero => rfl
  | succ n ih => rw [rsum_succ, ih (fun u hu => h u (by omega)), h n (by omega)]

/-! ### the edge-release loop -/

/-- number of edges of `L` that point to `v` -/
def cntV (L : List PEdge) (v : Nat) : Nat := L.countP (fun e => decide (e.v = v))

theorem cntV_cons (e : PEdge) (L : List PEdge) (v : Nat) :
    cntV (e :: L) v = cntV L v + (if e.v = v then 1 else 0) := by
  simp [cntV, List.countP_cons]

/-- events of node `v` in a list of events -/
def cntU (q : List Event) (v : Nat) : Nat := q.countP (fun e => decide (e.u = v))

theorem cntU_cons (a : Event) (q : List Event) (v : Nat) :
    cntU (a :: q) v = cntU q v + (if a.u = v then 1 else 0) := by
  simp [cntU, List.countP_cons]

theorem releaseEdges_spec (tEnd : Nat) : ∀ (L : List PEdge) (s : RState) (r : Nat → Nat),
    (∀ e ∈ L, e.v < s.readyCount.size) →
    (∀ v < s.readyCount.size, s.readyCount[v]! = (r v : Int)) →
    (∀ v, cntV L v ≤ r v) →
    ∃ rc new, releaseEdges tEnd L s = { s with readyCount := rc, queue := s.queue ++ new } ∧
      rc.size = s.readyCount.size ∧
      (∀ v < s.readyCount.size, rc[v]! = ((r v - cntV L v : Nat) : Int)) ∧
      (∀ e ∈ new, e.kind = .ready ∧ e.u < s.readyCount.size) ∧
      (∀ v, cntU new v = if 0 < cntV L v ∧ r v = cntV L v then 1 else 0) := by
  intro L
  induction L with
  | nil =>
    intro s r _ hr _
    refine ⟨s.readyCount, [], by simp [releaseEdges], rfl, ?_, by simp, ?_⟩
    · intro v hv; simp [cntV, hr v hv]
    · intro v; simp [cntU, cntV]
  | cons e es ih =>
    intro s r hlt hr hle
    have hev : e.v < s.readyCount.size := hlt e (by simp)
    have hre : 1 ≤ r e.v := by
      have := hle e.v; rw [cntV_cons] at this; simp at this; omega
    -- the state after the decrement
    let rc1 := s.readyCount.modify e.v (· - 1)
    let r1 : Nat → Nat := fun v => if v = e.v then r v - 1 else r v
    have hrc1 : ∀ v < s.readyCount.size, rc1[v]! = (r1 v : Int) := by
      intro v hv
      simp only [rc1, r1, modify_get!]
      by_cases h : e.v = v
      · subst h; rw [if_pos ⟨rfl, hev⟩, if_pos rfl, hr _ hev]; omega
      · have h' : ¬ v = e.v := fun x => h x.symm
        simp [h, h', hr v hv]
    have hzero : (rc1[e.v]! == 0) = decide (r e.v = 1) := by
      rw [hrc1 e.v hev]; simp only [r1, if_true]
      by_cases h : r e.v = 1 <;> simp [h] <;> omega
    have hle1 : ∀ v, cntV es v ≤ r1 v := by
      intro v
      have := hle v; rw [cntV_cons] at this
      simp only [r1]; split
      · rename_i h; subst h; simp at this; omega
      · rename_i h; have h' : ¬ e.v = v := fun x => h x.symm
        simp [h'] at this; exact this
    simp only [releaseEdges]
    -- apply the induction hypothesis to the intermediate state
    by_cases hone : r e.v = 1
    · have hz : (rc1[e.v]! == 0) = true := by rw [hzero]; simp [hone]
      obtain ⟨rc, new, heq, hsz, hrc, hnew, hcnt⟩ := ih
        { s with readyCount := rc1, queue := s.queue ++ [⟨tEnd, .ready, e.v⟩] } r1
        (by intro e' he'; simpa [rc1] using hlt e' (by simp [he']))
        (by intro v hv; exact hrc1 v (by simpa [rc1] using hv)) hle1
      refine ⟨rc, ⟨tEnd, .ready, e.v⟩ :: new, ?_, by simpa [rc1] using hsz, ?_, ?_, ?_⟩
      · show releaseEdges tEnd es (if (rc1[e.v]! == 0) = true then _ else _) = _
        rw [if_pos hz, heq]; simp
      · intro v hv
        rw [hrc v (by simpa [rc1] using hv), cntV_cons]
        simp only [r1]; split
        · rename_i h; subst h; simp; omega
        · rename_i h; have h' : ¬ e.v = v := fun x => h x.symm
          simp [h']
      · intro e' he'
        simp only [List.mem_cons] at he'
        rcases he' with rfl | he'
        · exact ⟨rfl, hev⟩
        · have := hnew e' he'; simpa [rc1] using this
      · intro v
        rw [cntU_cons, hcnt v, cntV_cons]
        have hl := hle v; rw [cntV_cons] at hl
        simp only [r1]
        by_cases h : e.v = v
        · subst h
          rw [if_pos rfl] at hl
          have hc0 : cntV es e.v = 0 := by omega
          simp [hc0, hone]
        · have h' : ¬ v = e.v := fun x => h x.symm
          simp [h, h']
    · have hz : ¬ (rc1[e.v]! == 0) = true := by rw [hzero]; simp [hone]
      obtain ⟨rc, new, heq, hsz, hrc, hnew, hcnt⟩ := ih
        { s with readyCount := rc1 } r1
        (by intro e' he'; simpa [rc1] using hlt e' (by simp [he']))
        (by intro v hv; exact hrc1 v (by simpa [rc1] using hv)) hle1
      refine ⟨rc, new, ?_, by simpa [rc1] using hsz, ?_, ?_, ?_⟩
      · show releaseEdges tEnd es (if (rc1[e.v]! == 0) = true then _ else _) = _
        rw [if_neg hz, heq]
      · intro v hv
        rw [hrc v (by simpa [rc1] using hv), cntV_cons]
        simp only [r1]; split
        · rename_i h; subst h; simp; omega
        · rename_i h; have h' : ¬ e.v = v := fun x => h x.symm
          simp [h']
      · intro e' he'
        have := hnew e' he'; simpa [rc1] using this
      · intro v
        rw [hcnt v, cntV_cons]
        have hl := hle v; rw [cntV_cons] at hl
        simp only [r1]
        by_cases h : e.v = v
        · subst h; simp; split <;> split <;> omega
        · have h' : ¬ v = e.v := fun x => h x.symm
          simp [h, h']

/-! ### the invariant of the traversal -/

/-- pending events of kind `k` for node `v` -/
def qc (q : List Event) (k : EvKind) (v : Nat) : Nat := q.countP (fun e => decide (e.kind = k ∧ e.u = v))

theorem qc_append (q r : List Event) (k : EvKind) (v : Nat) : qc (q ++ r) k v = qc q k v + qc r k v := by
  simp [qc, List.countP_append]

theorem qc_single (e : Event) (k : EvKind) (v : Nat) :
    qc [e] k v = if e.kind = k ∧ e.u = v then 1 else 0 := by
  simp [qc, List.countP_cons]

theorem qc_eraseIdx (q : List Event) (i : Nat) (h : i < q.length) (k : EvKind) (v : Nat) :
    qc q k v = qc (q.eraseIdx i) k v + (if q[i].kind = k ∧ q[i].u = v then 1 else 0) := by
  have := countP_eraseIdx (fun e : Event => decide (e.kind = k ∧ e.u = v)) q i h
  simpa [qc] using this

theorem qc_ready_of_all_ready (new : List Event) (h : ∀ e ∈ new, e.kind = .ready) (v : Nat) :
    qc new .ready v = cntU new v ∧ qc new .start v = 0 ∧ qc new .lastStart v = 0 ∧ qc new .end_ v = 0 := by
  refine ⟨?_, ?_, ?_, ?_⟩
  · exact List.countP_congr (fun e he => by simp [h e he])
  all_goals
    apply List.countP_eq_zero.mpr
    intro e he
    simp [h e he]

/-- edges into `v` from nodes that have not ended yet -/
def remaining (G : PiDag) (ended : Array Nat) (v : Nat) : Nat :=
  rsum G.T.size fun u => if ended[u]! = 0 then cntV (outEdges G u) v else 0

/-- how many `ready` events node `v` has been given so far -/
def enqOf (G : PiDag) (ended : Array Nat) (v : Nat) : Nat :=
  if v = firstLeaf G then 1
  else if 0 < (indegrees G)[v]! ∧ remaining G ended v = 0 then 1 else 0

def asum (n : Nat) (a : Array Nat) : Nat := rsum n (fun v => a[v]!)

/-- what the checker's certificate provides, in the form the traversal proof uses -/
structure Cert (G : PiDag) (rank : Nat → Option Nat) : Prop where
  fl_lt : firstLeaf G < G.T.size
  fl_leaf : isLeaf G.T[firstLeaf G]! = true
  ranked_leaf : ∀ i, (rank i).isSome → i < G.T.size ∧ isLeaf G.T[i]! = true
  leaf_ranked : ∀ i, i < G.T.size → isLeaf G.T[i]! = true → (rank i).isSome
  indeg_fl : (indegrees G)[firstLeaf G]! = 0
  indeg_leaf : ∀ i, i < G.T.size → isLeaf G.T[i]! = true → i ≠ firstLeaf G → 0 < (indegrees G)[i]!
  indeg_inner : ∀ i, i < G.T.size → isLeaf G.T[i]! = false → (indegrees G)[i]! = 0
  forward : ∀ u, u < G.T.size → ∀ e ∈ outEdges G u, ∃ a b, rank u = some a ∧ rank e.v = some b ∧ a < b
  degrees : ∀ v, v < G.T.size → (indegrees G)[v]! = rsum G.T.size (fun u => cntV (outEdges G u) v)
  indeg_size : (indegrees G).size = G.T.size

structure Inv (G : PiDag) (s : RState) : Prop where
  sz_rc : s.readyCount.size = G.T.size
  sz1 : s.readied.size = G.T.size
  sz2 : s.started.size = G.T.size
  sz3 : s.lastStarted.size = G.T.size
  sz4 : s.ended.size = G.T.size
  qlt : ∀ e ∈ s.queue, e.u < G.T.size
  pipe1 : ∀ v, v < G.T.size → s.readied[v]! = s.started[v]! + qc s.queue .start v
  pipe2 : ∀ v, v < G.T.size → s.started[v]! = s.lastStarted[v]! + qc s.queue .lastStart v
  pipe3 : ∀ v, v < G.T.size → s.lastStarted[v]! = s.ended[v]! + qc s.queue .end_ v
  enq : ∀ v, v < G.T.size → s.readied[v]! + qc s.queue .ready v = enqOf G s.ended v
  rc : ∀ v, v < G.T.size → s.readyCount[v]! = (remaining G s.ended v : Int)
  run : s.nRunning = (asum G.T.size s.started : Int) - asum G.T.size s.ended
  rdy : s.nReady = (asum G.T.size s.readied : Int) - asum G.T.size s.lastStarted

theorem enqOf_le_one (G : PiDag) (ended : Array Nat) (v : Nat) : enqOf G ended v ≤ 1 := by
  unfold enqOf; split <;> (try split) <;> omega

theorem Inv.le_one {G : PiDag} {s : RState} (h : Inv G s) (v : Nat) (hv : v < G.T.size) :
    s.readied[v]! ≤ 1 ∧ s.started[v]! ≤ 1 ∧ s.lastStarted[v]! ≤ 1 ∧ s.ended[v]! ≤ 1 := by
  have := h.pipe1 v hv; have := h.pipe2 v hv; have := h.pipe3 v hv; have := h.enq v hv
  have := enqOf_le_one G s.ended v
  omega

theorem asum_modify (n : Nat) (a : Array Nat) (u : Nat) (hu : u < n) (ha : a.size = n) :
    asum n (a.modify u (· + 1)) = asum n a + 1 := by
  have e : (fun v => (a.modify u fun x => x + 1)[v]!) = fun v => if u = v then a[v]! + 1 else a[v]! := by
    funext v; rw [modify_get!, ha]; simp [hu]
  have := rsum_update n u hu (fun v => a[v]!) (fun v => if u = v then a[v]! + 1 else a[v]!)
    (by intro x _ hx
        have hxu : ¬ u = x := fun e => hx e.symm
        simp [hxu])
  simp at this
  simp only [asum, e]
  omega
