import MythVerif.Model.PiDag
/-! The chronological traversal of a well-formed DAG starts and ends every leaf exactly once,
whatever order the pending events are dequeued in. -/
namespace MythVerif.PiDag

/-! ### generic helpers -/

theorem modify_get! {α} [Inhabited α] (a : Array α) (i j : Nat) (f : α → α) :
    (a.modify i f)[j]! = if i = j ∧ i < a.size then f a[j]! else a[j]! := by
  by_cases hj : j < a.size
  · simp only [getElem!_pos, hj, Array.size_modify, Array.getElem_modify]
    by_cases h : i = j <;> simp [h, hj]
  · have h1 : (a.modify i f)[j]! = default := by
      apply getElem!_neg; simpa using hj
    have h2 : a[j]! = default := by apply getElem!_neg; exact hj
    rw [h1, h2]
    split
    · rename_i h; omega
    · rfl

theorem countP_eraseIdx {α} (p : α → Bool) : ∀ (l : List α) (k : Nat) (h : k < l.length),
    l.countP p = (l.eraseIdx k).countP p + (if p l[k] then 1 else 0)
  | [], k, h => by simp at h
  | a :: l, 0, _ => by simp [List.countP_cons]
  | a :: l, k + 1, h => by
    have := countP_eraseIdx p l k (by simpa using h)
    simp only [List.eraseIdx_cons_succ, List.countP_cons, List.getElem_cons_succ, this]
    omega

def rsum (n : Nat) (f : Nat → Nat) : Nat := ((List.range n).map f).sum

theorem rsum_succ (n : Nat) (f : Nat → Nat) : rsum (n + 1) f = rsum n f + f n := by
  simp [rsum, List.range_succ, List.map_append, List.sum_append]

theorem rsum_congr (n : Nat) (f g : Nat → Nat) (h : ∀ x < n, f x = g x) : rsum n f = rsum n g := by
  induction n with
  | zero => rfl
  | succ n ih => rw [rsum_succ, rsum_succ, ih (fun x hx => h x (by omega)), h n (by omega)]

theorem rsum_update (n u : Nat) (hu : u < n) (f g : Nat → Nat) (h : ∀ x < n, x ≠ u → g x = f x) :
    rsum n g + f u = rsum n f + g u := by
  induction n with
  | zero => omega
  | succ n ih =>
    rw [rsum_succ, rsum_succ]
    by_cases hn : u = n
    · subst hn
      have := rsum_congr u g f (fun x hx => h x (by omega) (by omega))
      omega
    · have := ih (by omega) (fun x hx hxu => h x (by omega) hxu)
      have := h n (by omega) (fun e => hn e.symm)
      omega

theorem rsum_term_le (n u : Nat) (hu : u < n) (f : Nat → Nat) : f u ≤ rsum n f := by
  induction n with
  | zero => omega
  | succ n ih =>
    rw [rsum_succ]
    by_cases hn : u = n
    · subst hn; omega
    · have := ih (by omega); omega

theorem rsum_eq_zero (n : Nat) (f : Nat → Nat) (h : ∀ u < n, f u = 0) : rsum n f = 0 := by
  induction n with
  | zero => rfl
  | succ n ih => rw [rsum_succ, ih (fun u hu => h u (by omega)), h n (by omega)]

/-! ### the edge-release loop -/

/-- number of edges of `L` that point to `v` -/
def cntV (L : List PEdge) (v : Nat) : Nat := L.countP (fun e => decide (e.v = v))

theorem cntV_cons (e : PEdge) (L : List PEdge) (v : Nat) :
    cntV (e :: L) v = cntV L v + (if e.v = v then 1 else 0) := by
  simp [cntV, List.countP_cons]

/-- events of node `v` in a list of events -/
def cntU (q : List Event) (v : Nat) : Nat := q.countP (fun e => decide (e.u = v))

theorem cntU_cons (a : Event) (q : List Event) (v : Nat) :
    cntU (a :: q) v = cntU q v + (if a.u = v then 1 else 0) := by
  simp [cntU, List.countP_cons]

theorem releaseEdges_spec (tEnd : Nat) : ∀ (L : List PEdge) (s : RState) (r : Nat → Nat),
    (∀ e ∈ L, e.v < s.readyCount.size) →
    (∀ v < s.readyCount.size, s.readyCount[v]! = (r v : Int)) →
    (∀ v, cntV L v ≤ r v) →
    ∃ rc new, releaseEdges tEnd L s = { s with readyCount := rc, queue := s.queue ++ new } ∧
      rc.size = s.readyCount.size ∧
      (∀ v < s.readyCount.size, rc[v]! = ((r v - cntV L v : Nat) : Int)) ∧
      (∀ e ∈ new, e.kind = .ready ∧ e.u < s.readyCount.size) ∧
      (∀ v, cntU new v = if 0 < cntV L v ∧ r v = cntV L v then 1 else 0) := by
  intro L
  induction L with
  | nil =>
    intro s r _ hr _
    refine ⟨s.readyCount, [], by simp [releaseEdges], rfl, ?_, by simp, ?_⟩
    · intro v hv; simp [cntV, hr v hv]
    · intro v; simp [cntU, cntV]
  | cons e es ih =>
    intro s r hlt hr hle
    have hev : e.v < s.readyCount.size := hlt e (by simp)
    have hre : 1 ≤ r e.v := by
      have := hle e.v; rw [cntV_cons] at this; simp at this; omega
    -- the state after the decrement
    let rc1 := s.readyCount.modify e.v (· - 1)
    let r1 : Nat → Nat := fun v => if v = e.v then r v - 1 else r v
    have hrc1 : ∀ v < s.readyCount.size, rc1[v]! = (r1 v : Int) := by
      intro v hv
      simp only [rc1, r1, modify_get!]
      by_cases h : e.v = v
      · subst h; rw [if_pos ⟨rfl, hev⟩, if_pos rfl, hr _ hev]; omega
      · have h' : ¬ v = e.v := fun x => h x.symm
        simp [h, h', hr v hv]
    have hzero : (rc1[e.v]! == 0) = decide (r e.v = 1) := by
      rw [hrc1 e.v hev]; simp only [r1, if_true]
      by_cases h : r e.v = 1 <;> simp [h] <;> omega
    have hle1 : ∀ v, cntV es v ≤ r1 v := by
      intro v
      have := hle v; rw [cntV_cons] at this
      simp only [r1]; split
      · rename_i h; subst h; simp at this; omega
      · rename_i h; have h' : ¬ e.v = v := fun x => h x.symm
        simp [h'] at this; exact this
    simp only [releaseEdges]
    -- apply the induction hypothesis to the intermediate state
    by_cases hone : r e.v = 1
    · have hz : (rc1[e.v]! == 0) = true := by rw [hzero]; simp [hone]
      obtain ⟨rc, new, heq, hsz, hrc, hnew, hcnt⟩ := ih
        { s with readyCount := rc1, queue := s.queue ++ [⟨tEnd, .ready, e.v⟩] } r1
        (by intro e' he'; simpa [rc1] using hlt e' (by simp [he']))
        (by intro v hv; exact hrc1 v (by simpa [rc1] using hv)) hle1
      refine ⟨rc, ⟨tEnd, .ready, e.v⟩ :: new, ?_, by simpa [rc1] using hsz, ?_, ?_, ?_⟩
      · show releaseEdges tEnd es (if (rc1[e.v]! == 0) = true then _ else _) = _
        rw [if_pos hz, heq]; simp
      · intro v hv
        rw [hrc v (by simpa [rc1] using hv), cntV_cons]
        simp only [r1]; split
        · rename_i h; subst h; simp; omega
        · rename_i h; have h' : ¬ e.v = v := fun x => h x.symm
          simp [h']
      · intro e' he'
        simp only [List.mem_cons] at he'
        rcases he' with rfl | he'
        · exact ⟨rfl, hev⟩
        · have := hnew e' he'; simpa [rc1] using this
      · intro v
        rw [cntU_cons, hcnt v, cntV_cons]
        have hl := hle v; rw [cntV_cons] at hl
        simp only [r1]
        by_cases h : e.v = v
        · subst h
          rw [if_pos rfl] at hl
          have hc0 : cntV es e.v = 0 := by omega
          simp [hc0, hone]
        · have h' : ¬ v = e.v := fun x => h x.symm
          simp [h, h']
    · have hz : ¬ (rc1[e.v]! == 0) = true := by rw [hzero]; simp [hone]
      obtain ⟨rc, new, heq, hsz, hrc, hnew, hcnt⟩ := ih
        { s with readyCount := rc1 } r1
        (by intro e' he'; simpa [rc1] using hlt e' (by simp [he']))
        (by intro v hv; exact hrc1 v (by simpa [rc1] using hv)) hle1
      refine ⟨rc, new, ?_, by simpa [rc1] using hsz, ?_, ?_, ?_⟩
      · show releaseEdges tEnd es (if (rc1[e.v]! == 0) = true then _ else _) = _
        rw [if_neg hz, heq]
      · intro v hv
        rw [hrc v (by simpa [rc1] using hv), cntV_cons]
        simp only [r1]; split
        · rename_i h; subst h; simp; omega
        · rename_i h; have h' : ¬ e.v = v := fun x => h x.symm
          simp [h']
      · intro e' he'
        have := hnew e' he'; simpa [rc1] using this
      · intro v
        rw [hcnt v, cntV_cons]
        have hl := hle v; rw [cntV_cons] at hl
        simp only [r1]
        by_cases h : e.v = v
        · subst h; simp; split <;> split <;> omega
        · have h' : ¬ v = e.v := fun x => h x.symm
          simp [h, h']

/-! ### the invariant of the traversal -/

/-- pending events of kind `k` for node `v` -/
def qc (q : List Event) (k : EvKind) (v : Nat) : Nat := q.countP (fun e => decide (e.kind = k ∧ e.u = v))

theorem qc_append (q r : List Event) (k : EvKind) (v : Nat) : qc (q ++ r) k v = qc q k v + qc r k v := by
  simp [qc, List.countP_append]

theorem qc_single (e : Event) (k : EvKind) (v : Nat) :
    qc [e] k v = if e.kind = k ∧ e.u = v then 1 else 0 := by
  simp [qc, List.countP_cons]

theorem qc_eraseIdx (q : List Event) (i : Nat) (h : i < q.length) (k : EvKind) (v : Nat) :
    qc q k v = qc (q.eraseIdx i) k v + (if q[i].kind = k ∧ q[i].u = v then 1 else 0) := by
  have := countP_eraseIdx (fun e : Event => decide (e.kind = k ∧ e.u = v)) q i h
  simpa [qc] using this

theorem qc_ready_of_all_ready (new : List Event) (h : ∀ e ∈ new, e.kind = .ready) (v : Nat) :
    qc new .ready v = cntU new v ∧ qc new .start v = 0 ∧ qc new .lastStart v = 0 ∧ qc new .end_ v = 0 := by
  refine ⟨?_, ?_, ?_, ?_⟩
  · exact List.countP_congr (fun e he => by simp [h e he])
  all_goals
    apply List.countP_eq_zero.mpr
    intro e he
    simp [h e he]

/-- edges into `v` from nodes that have not ended yet -/
def remaining (G : PiDag) (ended : Array Nat) (v : Nat) : Nat :=
  rsum G.T.size fun u => if ended[u]! = 0 then cntV (outEdges G u) v else 0

/-- how many `ready` events node `v` has been given so far -/
def enqOf (G : PiDag) (ended : Array Nat) (v : Nat) : Nat :=
  if v = firstLeaf G then 1
  else if 0 < (indegrees G)[v]! ∧ remaining G ended v = 0 then 1 else 0

def asum (n : Nat) (a : Array Nat) : Nat := rsum n (fun v => a[v]!)

/-- what the checker's certificate provides, in the form the traversal proof uses -/
structure Cert (G : PiDag) (rank : Nat → Option Nat) : Prop where
  fl_lt : firstLeaf G < G.T.size
  fl_leaf : isLeaf G.T[firstLeaf G]! = true
  ranked_leaf : ∀ i, (rank i).isSome → i < G.T.size ∧ isLeaf G.T[i]! = true
  leaf_ranked : ∀ i, i < G.T.size → isLeaf G.T[i]! = true → (rank i).isSome
  indeg_fl : (indegrees G)[firstLeaf G]! = 0
  indeg_leaf : ∀ i, i < G.T.size → isLeaf G.T[i]! = true → i ≠ firstLeaf G → 0 < (indegrees G)[i]!
  indeg_inner : ∀ i, i < G.T.size → isLeaf G.T[i]! = false → (indegrees G)[i]! = 0
  forward : ∀ u, u < G.T.size → ∀ e ∈ outEdges G u, ∃ a b, rank u = some a ∧ rank e.v = some b ∧ a < b
  degrees : ∀ v, v < G.T.size → (indegrees G)[v]! = rsum G.T.size (fun u => cntV (outEdges G u) v)
  indeg_size : (indegrees G).size = G.T.size

structure Inv (G : PiDag) (s : RState) : Prop where
  sz_rc : s.readyCount.size = G.T.size
  sz1 : s.readied.size = G.T.size
  sz2 : s.started.size = G.T.size
  sz3 : s.lastStarted.size = G.T.size
  sz4 : s.ended.size = G.T.size
  qlt : ∀ e ∈ s.queue, e.u < G.T.size
  pipe1 : ∀ v, v < G.T.size → s.readied[v]! = s.started[v]! + qc s.queue .start v
  pipe2 : ∀ v, v < G.T.size → s.started[v]! = s.lastStarted[v]! + qc s.queue .lastStart v
  pipe3 : ∀ v, v < G.T.size → s.lastStarted[v]! = s.ended[v]! + qc s.queue .end_ v
  enq : ∀ v, v < G.T.size → s.readied[v]! + qc s.queue .ready v = enqOf G s.ended v
  rc : ∀ v, v < G.T.size → s.readyCount[v]! = (remaining G s.ended v : Int)
  run : s.nRunning = (asum G.T.size s.started : Int) - asum G.T.size s.ended
  rdy : s.nReady = (asum G.T.size s.readied : Int) - asum G.T.size s.lastStarted

theorem enqOf_le_one (G : PiDag) (ended : Array Nat) (v : Nat) : enqOf G ended v ≤ 1 := by
  unfold enqOf; split <;> (try split) <;> omega

theorem Inv.le_one {G : PiDag} {s : RState} (h : Inv G s) (v : Nat) (hv : v < G.T.size) :
    s.readied[v]! ≤ 1 ∧ s.started[v]! ≤ 1 ∧ s.lastStarted[v]! ≤ 1 ∧ s.ended[v]! ≤ 1 := by
  have := h.pipe1 v hv; have := h.pipe2 v hv; have := h.pipe3 v hv; have := h.enq v hv
  have := enqOf_le_one G s.ended v
  omega

theorem asum_modify (n : Nat) (a : Array Nat) (u : Nat) (hu : u < n) (ha : a.size = n) :
    asum n (a.modify u (· + 1)) = asum n a + 1 := by
  have e : (fun v => (a.modify u fun x => x + 1)[v]!) = fun v => if u = v then a[v]! + 1 else a[v]! := by
    funext v; rw [modify_get!, ha]; simp [hu]
  have := rsum_update n u hu (fun v => a[v]!) (fun v => if u = v then a[v]! + 1 else a[v]!)
    (by intro x _ hx
        have hxu : ¬ u = x := fun e => hx e.symm
        simp [hxu])
  simp at this
  simp only [asum, e]
  omega

/-! ### one step of the traversal preserves the invariant -/

theorem get_modify_inc (a : Array Nat) (u v n : Nat) (hu : u < n) (ha : a.size = n) :
    (a.modify u (· + 1))[v]! = a[v]! + (if u = v then 1 else 0) := by
  rw [modify_get!, ha]; simp only [hu, and_true]; split <;> simp

theorem step_ready (G : PiDag) (s : RState) (q' : List Event) (t u : Nat) (hi : Inv G s)
    (hu : u < G.T.size)
    (hq : ∀ k v, qc s.queue k v = qc q' k v + (if EvKind.ready = k ∧ u = v then 1 else 0))
    (hsub : ∀ e ∈ q', e.u < G.T.size) :
    Inv G (processEvent G { s with queue := q' } ⟨t, .ready, u⟩) := by
  simp only [processEvent, account]
  constructor <;> simp only [Array.size_modify]
  · exact hi.sz_rc
  · exact hi.sz1
  · exact hi.sz2
  · exact hi.sz3
  · exact hi.sz4
  · intro e he
    simp only [List.mem_append, List.mem_singleton] at he
    rcases he with he | rfl
    · exact hsub e he
    · exact hu
  · intro v hv
    have := hi.pipe1 v hv; have := hq .start v
    rw [get_modify_inc _ _ _ _ hu hi.sz1, qc_append, qc_single]
    simp at *; omega
  · intro v hv
    have := hi.pipe2 v hv; have := hq .lastStart v
    rw [qc_append, qc_single]; simp at *; omega
  · intro v hv
    have := hi.pipe3 v hv; have := hq .end_ v
    rw [qc_append, qc_single]; simp at *; omega
  · intro v hv
    have := hi.enq v hv; have := hq .ready v
    rw [get_modify_inc _ _ _ _ hu hi.sz1, qc_append, qc_single]
    simp at *; omega
  · exact hi.rc
  · exact hi.run
  · have := hi.rdy
    rw [asum_modify _ _ _ hu hi.sz1]; simp at *; omega

theorem step_start (G : PiDag) (s : RState) (q' : List Event) (t u : Nat) (hi : Inv G s)
    (hu : u < G.T.size)
    (hq : ∀ k v, qc s.queue k v = qc q' k v + (if EvKind.start = k ∧ u = v then 1 else 0))
    (hsub : ∀ e ∈ q', e.u < G.T.size) :
    Inv G (processEvent G { s with queue := q' } ⟨t, .start, u⟩) := by
  simp only [processEvent, account]
  constructor <;> simp only [Array.size_modify]
  · exact hi.sz_rc
  · exact hi.sz1
  · exact hi.sz2
  · exact hi.sz3
  · exact hi.sz4
  · intro e he
    simp only [List.mem_append, List.mem_singleton] at he
    rcases he with he | rfl
    · exact hsub e he
    · exact hu
  · intro v hv
    have := hi.pipe1 v hv; have := hq .start v
    rw [get_modify_inc _ _ _ _ hu hi.sz2, qc_append, qc_single]
    simp at *; omega
  · intro v hv
    have := hi.pipe2 v hv; have := hq .lastStart v
    rw [get_modify_inc _ _ _ _ hu hi.sz2, qc_append, qc_single]; simp at *; omega
  · intro v hv
    have := hi.pipe3 v hv; have := hq .end_ v
    rw [qc_append, qc_single]; simp at *; omega
  · intro v hv
    have := hi.enq v hv; have := hq .ready v
    rw [qc_append, qc_single]
    simp at *; omega
  · exact hi.rc
  · have := hi.run
    rw [asum_modify _ _ _ hu hi.sz2]; simp at *; omega
  · exact hi.rdy

theorem step_lastStart (G : PiDag) (s : RState) (q' : List Event) (t u : Nat) (hi : Inv G s)
    (hu : u < G.T.size)
    (hq : ∀ k v, qc s.queue k v = qc q' k v + (if EvKind.lastStart = k ∧ u = v then 1 else 0))
    (hsub : ∀ e ∈ q', e.u < G.T.size) :
    Inv G (processEvent G { s with queue := q' } ⟨t, .lastStart, u⟩) := by
  simp only [processEvent, account]
  constructor <;> simp only [Array.size_modify]
  · exact hi.sz_rc
  · exact hi.sz1
  · exact hi.sz2
  · exact hi.sz3
  · exact hi.sz4
  · intro e he
    simp only [List.mem_append, List.mem_singleton] at he
    rcases he with he | rfl
    · exact hsub e he
    · exact hu
  · intro v hv
    have := hi.pipe1 v hv; have := hq .start v
    rw [qc_append, qc_single]
    simp at *; omega
  · intro v hv
    have := hi.pipe2 v hv; have := hq .lastStart v
    rw [get_modify_inc _ _ _ _ hu hi.sz3, qc_append, qc_single]; simp at *; omega
  · intro v hv
    have := hi.pipe3 v hv; have := hq .end_ v
    rw [get_modify_inc _ _ _ _ hu hi.sz3, qc_append, qc_single]; simp at *; omega
  · intro v hv
    have := hi.enq v hv; have := hq .ready v
    rw [qc_append, qc_single]
    simp at *; omega
  · exact hi.rc
  · exact hi.run
  · have := hi.rdy
    rw [asum_modify _ _ _ hu hi.sz3]; simp at *; omega

theorem remaining_end (G : PiDag) (ended : Array Nat) (u v : Nat) (hu : u < G.T.size)
    (hsz : ended.size = G.T.size) (h0 : ended[u]! = 0) :
    remaining G (ended.modify u (· + 1)) v + cntV (outEdges G u) v = remaining G ended v := by
  have e : (fun w => if (ended.modify u (· + 1))[w]! = 0 then cntV (outEdges G w) v else 0) =
      fun w => if u = w then 0 else (if ended[w]! = 0 then cntV (outEdges G w) v else 0) := by
    funext w
    rw [get_modify_inc _ _ _ _ hu hsz]
    by_cases h : u = w
    · subst h; simp
    · simp [h]
  have := rsum_update G.T.size u hu
    (fun w => if ended[w]! = 0 then cntV (outEdges G w) v else 0)
    (fun w => if u = w then 0 else (if ended[w]! = 0 then cntV (outEdges G w) v else 0))
    (by intro x _ hx
        have hxu : ¬ u = x := fun e => hx e.symm
        simp [hxu])
  simp [h0] at this
  simp only [remaining, e]
  omega

theorem term_le_remaining (G : PiDag) (ended : Array Nat) (u v : Nat) (hu : u < G.T.size) (h0 : ended[u]! = 0) :
    cntV (outEdges G u) v ≤ remaining G ended v := by
  have := rsum_term_le G.T.size u hu (fun w => if ended[w]! = 0 then cntV (outEdges G w) v else 0)
  simpa [h0, remaining] using this

theorem enqOf_end (G : PiDag) (rank : Nat → Option Nat) (hc : Cert G rank) (ended : Array Nat)
    (u v : Nat) (hu : u < G.T.size) (hv : v < G.T.size) (hsz : ended.size = G.T.size) (h0 : ended[u]! = 0) :
    enqOf G (ended.modify u (· + 1)) v = enqOf G ended v +
      (if 0 < cntV (outEdges G u) v ∧ remaining G ended v = cntV (outEdges G u) v then 1 else 0) := by
  have hrem := remaining_end G ended u v hu hsz h0
  have hle := term_le_remaining G ended u v hu h0
  have hdeg : cntV (outEdges G u) v ≤ (indegrees G)[v]! := by
    rw [hc.degrees v hv]
    exact rsum_term_le G.T.size u hu (fun w => cntV (outEdges G w) v)
  unfold enqOf
  by_cases hfl : v = firstLeaf G
  · subst hfl
    have := hc.indeg_fl
    simp; omega
  · simp only [hfl, if_false]
    by_cases hc0 : cntV (outEdges G u) v = 0
    · have : remaining G (ended.modify u (· + 1)) v = remaining G ended v := by omega
      simp [hc0, this]
    · have h1 : 0 < (indegrees G)[v]! := by omega
      have h2 : ¬ remaining G ended v = 0 := by omega
      simp only [h1, true_and, h2, if_false, Nat.zero_add]
      have : 0 < cntV (outEdges G u) v := by omega
      simp only [this, true_and]
      by_cases h3 : remaining G ended v = cntV (outEdges G u) v
      · have : remaining G (ended.modify u (· + 1)) v = 0 := by omega
        simp [this, h3]
      · have : ¬ remaining G (ended.modify u (· + 1)) v = 0 := by omega
        simp [this, h3]

theorem step_end (G : PiDag) (rank : Nat → Option Nat) (hc : Cert G rank) (s : RState) (q' : List Event)
    (t u : Nat) (hi : Inv G s) (hu : u < G.T.size)
    (hq : ∀ k v, qc s.queue k v = qc q' k v + (if EvKind.end_ = k ∧ u = v then 1 else 0))
    (hsub : ∀ e ∈ q', e.u < G.T.size) :
    Inv G (processEvent G { s with queue := q' } ⟨t, .end_, u⟩) := by
  have h0 : s.ended[u]! = 0 := by
    have := hi.pipe3 u hu; have := hq .end_ u; have := (hi.le_one u hu).2.2.1
    simp at *; omega
  obtain ⟨rc, new, heq, hsz, hrc, hnew, hcnt⟩ := releaseEdges_spec (G.T[u]!.info.c.end_.t) (outEdges G u)
    { s with queue := q' } (fun v => remaining G s.ended v)
    (by intro e he
        obtain ⟨a, b, _, hb, _⟩ := hc.forward u hu e he
        have := (hc.ranked_leaf e.v (by simp [hb])).1
        simpa [hi.sz_rc] using this)
    (by intro v hv; exact hi.rc v (by simpa [hi.sz_rc] using hv))
    (fun v => term_le_remaining G s.ended u v hu h0)
  simp only [processEvent, heq, account]
  have hall : ∀ e ∈ new, e.kind = .ready := fun e he => (hnew e he).1
  constructor <;> simp only [Array.size_modify]
  · simpa [hi.sz_rc] using hsz
  · exact hi.sz1
  · exact hi.sz2
  · exact hi.sz3
  · exact hi.sz4
  · intro e he
    simp only [List.mem_append] at he
    rcases he with he | he
    · exact hsub e he
    · have := (hnew e he).2; simpa [hi.sz_rc] using this
  · intro v hv
    have := hi.pipe1 v hv; have := hq .start v; have := (qc_ready_of_all_ready new hall v).2.1
    rw [qc_append]; simp at *; omega
  · intro v hv
    have := hi.pipe2 v hv; have := hq .lastStart v; have := (qc_ready_of_all_ready new hall v).2.2.1
    rw [qc_append]; simp at *; omega
  · intro v hv
    have := hi.pipe3 v hv; have := hq .end_ v; have := (qc_ready_of_all_ready new hall v).2.2.2
    rw [get_modify_inc _ _ _ _ hu hi.sz4, qc_append]; simp at *; omega
  · intro v hv
    have h1 := hi.enq v hv; have h2 := hq .ready v; have h3 := (qc_ready_of_all_ready new hall v).1
    have h4 := hcnt v
    have h5 := enqOf_end G rank hc s.ended u v hu hv hi.sz4 h0
    rw [qc_append, h3, h4, h5]
    simp at h2
    omega
  · intro v hv
    have := hrc v (by simpa [hi.sz_rc] using hv)
    have h2 := remaining_end G s.ended u v hu hi.sz4 h0
    rw [this]
    have : remaining G s.ended v - cntV (outEdges G u) v = remaining G (s.ended.modify u (· + 1)) v := by omega
    simp only [this]
  · have := hi.run
    rw [asum_modify _ _ _ hu hi.sz4]; simp at *; omega
  · exact hi.rdy

theorem step_inv (G : PiDag) (rank : Nat → Option Nat) (hc : Cert G rank) (s : RState) (hi : Inv G s)
    (k : Nat) (hk : k < s.queue.length) :
    Inv G (processEvent G { s with queue := s.queue.eraseIdx k } s.queue[k]) := by
  have hu : s.queue[k].u < G.T.size := hi.qlt _ (List.getElem_mem hk)
  have hsub : ∀ e ∈ s.queue.eraseIdx k, e.u < G.T.size := fun e he => hi.qlt e (List.mem_of_mem_eraseIdx he)
  have hq := fun k' v => qc_eraseIdx s.queue k hk k' v
  rcases hev : s.queue[k] with ⟨t, kind, u⟩
  rw [hev] at hu hq
  simp only at hu hq
  cases kind
  · exact step_ready G s _ t u hi hu hq hsub
  · exact step_start G s _ t u hi hu hq hsub
  · exact step_lastStart G s _ t u hi hu hq hsub
  · exact step_end G rank hc s _ t u hi hu hq hsub

/-! ### termination -/

/-- number of events processed so far -/
def doneCount (n : Nat) (s : RState) : Nat :=
  asum n s.readied + asum n s.started + asum n s.lastStarted + asum n s.ended

theorem rsum_le (n : Nat) (f : Nat → Nat) (h : ∀ u < n, f u ≤ 1) : rsum n f ≤ n := by
  induction n with
  | zero => simp [rsum]
  | succ n ih =>
    rw [rsum_succ]
    have := ih (fun u hu => h u (by omega)); have := h n (by omega); omega

theorem Inv.done_le {G : PiDag} {s : RState} (h : Inv G s) : doneCount G.T.size s ≤ 4 * G.T.size := by
  have h1 := rsum_le G.T.size (fun v => s.readied[v]!) (fun u hu => (h.le_one u hu).1)
  have h2 := rsum_le G.T.size (fun v => s.started[v]!) (fun u hu => (h.le_one u hu).2.1)
  have h3 := rsum_le G.T.size (fun v => s.lastStarted[v]!) (fun u hu => (h.le_one u hu).2.2.1)
  have h4 := rsum_le G.T.size (fun v => s.ended[v]!) (fun u hu => (h.le_one u hu).2.2.2)
  simp only [doneCount, asum]; omega

theorem releaseEdges_arrays (tEnd : Nat) : ∀ (L : List PEdge) (s : RState),
    (releaseEdges tEnd L s).readied = s.readied ∧ (releaseEdges tEnd L s).started = s.started ∧
    (releaseEdges tEnd L s).lastStarted = s.lastStarted ∧ (releaseEdges tEnd L s).ended = s.ended := by
  intro L
  induction L with
  | nil => intro s; simp [releaseEdges]
  | cons e es ih =>
    intro s
    simp only [releaseEdges]
    split <;> (rw [(ih _).1, (ih _).2.1, (ih _).2.2.1, (ih _).2.2.2]; simp)

theorem step_done (G : PiDag) (s : RState) (hi : Inv G s) (q' : List Event) (ev : Event) (hu : ev.u < G.T.size) :
    doneCount G.T.size (processEvent G { s with queue := q' } ev) = doneCount G.T.size s + 1 := by
  obtain ⟨t, kind, u⟩ := ev
  simp only at hu
  cases kind <;> simp only [processEvent, account, doneCount]
  · rw [asum_modify _ _ _ hu hi.sz1]; omega
  · rw [asum_modify _ _ _ hu hi.sz2]; omega
  · rw [asum_modify _ _ _ hu hi.sz3]; omega
  · have := releaseEdges_arrays (G.T[u]!.info.c.end_.t) (outEdges G u) { s with queue := q' }
    rw [this.1, this.2.1, this.2.2.1, this.2.2.2]
    simp only
    rw [asum_modify _ _ _ hu hi.sz4]; omega

theorem replay_terminates (pick : List Event → Nat) (G : PiDag) (rank : Nat → Option Nat) (hc : Cert G rank) :
    ∀ (fuel : Nat) (s : RState), Inv G s → 4 * G.T.size < doneCount G.T.size s + fuel →
      (replayWith pick G fuel s).queue = [] ∧ Inv G (replayWith pick G fuel s) := by
  intro fuel
  induction fuel with
  | zero => intro s hi hlt; have := hi.done_le; omega
  | succ fuel ih =>
    intro s hi hlt
    unfold replayWith
    split
    · rename_i hq; exact ⟨hq, hi⟩
    · rename_i a q hq
      have hpos : 0 < (a :: q).length := by simp
      have hk : pick (a :: q) % (a :: q).length < s.queue.length := by
        rw [hq]; exact Nat.mod_lt _ hpos
      have hget : (a :: q)[pick (a :: q) % (a :: q).length]! = s.queue[pick (a :: q) % (a :: q).length] := by
        simp only [hq]
        rw [getElem!_pos (a :: q) _ (Nat.mod_lt _ hpos)]
      dsimp only
      rw [hget]
      have hinv := step_inv G rank hc s hi _ hk
      have hdone := step_done G s hi (s.queue.eraseIdx (pick (a :: q) % (a :: q).length))
        s.queue[pick (a :: q) % (a :: q).length] (hi.qlt _ (List.getElem_mem hk))
      have : (a :: q).eraseIdx (pick (a :: q) % (a :: q).length) = s.queue.eraseIdx (pick (a :: q) % (a :: q).length) := by
        rw [hq]
      rw [this]
      exact ih _ hinv (by omega)

/-! ### the initial state and the final verdict -/

theorem replicate_get! (n v : Nat) : (Array.replicate n (0 : Nat))[v]! = 0 := by
  by_cases h : v < n
  · simp [h]
  · have : (Array.replicate n (0 : Nat))[v]! = default := by apply getElem!_neg; simpa using h
    rw [this]; rfl

theorem remaining_zero (G : PiDag) (rank : Nat → Option Nat) (hc : Cert G rank) (v : Nat) (hv : v < G.T.size) :
    remaining G (Array.replicate G.T.size 0) v = (indegrees G)[v]! := by
  rw [hc.degrees v hv]
  simp [remaining, replicate_get!]

theorem asum_zero (n : Nat) : asum n (Array.replicate n 0) = 0 := by
  simp only [asum]; exact rsum_eq_zero n _ (fun u _ => replicate_get! n u)

theorem inv_init (G : PiDag) (rank : Nat → Option Nat) (hc : Cert G rank) : Inv G (initReplay G) := by
  constructor <;> simp only [initReplay]
  · simp [hc.indeg_size]
  · simp
  · simp
  · simp
  · simp
  · intro e he; simp at he; subst he; exact hc.fl_lt
  · intro v _; simp [replicate_get!, qc_single]
  · intro v _; simp [replicate_get!, qc_single]
  · intro v _; simp [replicate_get!, qc_single]
  · intro v hv
    rw [replicate_get!, qc_single]
    unfold enqOf
    rw [remaining_zero G rank hc v hv]
    by_cases h : v = firstLeaf G
    · subst h; simp
    · have h' : ¬ firstLeaf G = v := fun e => h e.symm
      simp [h, h']; omega
  · intro v hv
    rw [remaining_zero G rank hc v hv]
    have hsz : v < (indegrees G).size := by rw [hc.indeg_size]; exact hv
    have h1 : ((indegrees G).map Int.ofNat)[v]! = Int.ofNat (indegrees G)[v] := by
      rw [getElem!_pos _ v (by simpa using hsz)]; simp
    rw [h1, getElem!_pos _ v hsz]; rfl
  · simp [asum_zero]
  · simp [asum_zero]

theorem cntV_pos {L : List PEdge} {v : Nat} (h : 0 < cntV L v) : ∃ e ∈ L, e.v = v := by
  have := List.countP_pos_iff.mp h
  obtain ⟨e, he, hp⟩ := this
  exact ⟨e, he, by simpa using hp⟩

theorem final_of_inv (G : PiDag) (rank : Nat → Option Nat) (hc : Cert G rank) (r : RState)
    (hq : r.queue = []) (hi : Inv G r) :
    r.queue = [] ∧
    (∀ i, i < G.T.size → r.readied[i]! = (if isLeaf G.T[i]! then 1 else 0) ∧
      r.started[i]! = (if isLeaf G.T[i]! then 1 else 0) ∧
      r.lastStarted[i]! = (if isLeaf G.T[i]! then 1 else 0) ∧
      r.ended[i]! = (if isLeaf G.T[i]! then 1 else 0)) ∧
    r.nRunning = 0 ∧ r.nReady = 0 := by
  -- with an empty queue all four counters of a node equal the number of ready events it was given
  have hall : ∀ v, v < G.T.size → r.readied[v]! = enqOf G r.ended v ∧ r.started[v]! = enqOf G r.ended v ∧
      r.lastStarted[v]! = enqOf G r.ended v ∧ r.ended[v]! = enqOf G r.ended v := by
    intro v hv
    have h1 := hi.pipe1 v hv; have h2 := hi.pipe2 v hv; have h3 := hi.pipe3 v hv; have h4 := hi.enq v hv
    have hq' : r.queue = [] := hq
    rw [hq'] at h1 h2 h3 h4
    simp [qc] at h1 h2 h3 h4
    omega
  -- every ranked node has ended (induction along the topological order)
  have hranked : ∀ b v, v < G.T.size → rank v = some b → r.ended[v]! = 1 := by
    intro b
    induction b using Nat.strongRecOn with
    | _ b ih =>
      intro v hv hr
      rw [(hall v hv).2.2.2]
      unfold enqOf
      by_cases hfl : v = firstLeaf G
      · simp [hfl]
      · have hleaf := (hc.ranked_leaf v (by simp [hr])).2
        have hdeg := hc.indeg_leaf v hv hleaf hfl
        have hrem : remaining G r.ended v = 0 := by
          apply rsum_eq_zero
          intro u hu
          by_cases he : r.ended[u]! = 0
          · simp only [he, if_true]
            by_cases hcnt : cntV (outEdges G u) v = 0
            · exact hcnt
            · obtain ⟨e, hmem, hev⟩ := cntV_pos (Nat.pos_of_ne_zero hcnt)
              obtain ⟨a, b', ha, hb', hab⟩ := hc.forward u hu e hmem
              rw [hev, hr] at hb'
              cases hb'
              have := ih a hab u hu ha
              omega
          · simp [he]
        simp [hfl, hdeg, hrem]
  have hfinal : ∀ i, i < G.T.size → enqOf G r.ended i = (if isLeaf G.T[i]! then 1 else 0) := by
    intro i hi'
    cases hl : isLeaf G.T[i]!
    · have := hc.indeg_inner i hi' hl
      have hne : i ≠ firstLeaf G := by
        intro e; rw [e, hc.fl_leaf] at hl; cases hl
      simp [enqOf, hne, this]
    · obtain ⟨b, hb⟩ := Option.isSome_iff_exists.mp (hc.leaf_ranked i hi' hl)
      have := hranked b i hi' hb
      rw [(hall i hi').2.2.2] at this
      simp [this]
  refine ⟨hq, ?_, ?_, ?_⟩
  · intro i hi'
    have := hall i hi'; have := hfinal i hi'
    omega
  · have := hi.run
    have e : asum G.T.size r.started = asum G.T.size r.ended :=
      rsum_congr _ _ _ (fun v hv => by have := hall v hv; omega)
    rw [this, e]; omega
  · have := hi.rdy
    have e : asum G.T.size r.readied = asum G.T.size r.lastStarted :=
      rsum_congr _ _ _ (fun v hv => by have := hall v hv; omega)
    rw [this, e]; omega

/-- **the traversal of a certified DAG**: whatever event is dequeued next, the traversal ends with an
    empty queue, every leaf has been made ready, started, last-started and ended exactly once, no
    other node has been touched, and nothing is running or ready. -/
theorem replay_final (pick : List Event → Nat) (G : PiDag) (rank : Nat → Option Nat) (hc : Cert G rank) :
    (replayWith pick G (4 * G.T.size + 4) (initReplay G)).queue = [] ∧
    (∀ i, i < G.T.size →
      (replayWith pick G (4 * G.T.size + 4) (initReplay G)).readied[i]! = (if isLeaf G.T[i]! then 1 else 0) ∧
      (replayWith pick G (4 * G.T.size + 4) (initReplay G)).started[i]! = (if isLeaf G.T[i]! then 1 else 0) ∧
      (replayWith pick G (4 * G.T.size + 4) (initReplay G)).lastStarted[i]! = (if isLeaf G.T[i]! then 1 else 0) ∧
      (replayWith pick G (4 * G.T.size + 4) (initReplay G)).ended[i]! = (if isLeaf G.T[i]! then 1 else 0)) ∧
    (replayWith pick G (4 * G.T.size + 4) (initReplay G)).nRunning = 0 ∧
    (replayWith pick G (4 * G.T.size + 4) (initReplay G)).nReady = 0 := by
  obtain ⟨hq, hi⟩ := replay_terminates pick G rank hc (4 * G.T.size + 4) (initReplay G) (inv_init G rank hc) (by omega)
  exact final_of_inv G rank hc _ hq hi

end MythVerif.PiDag
