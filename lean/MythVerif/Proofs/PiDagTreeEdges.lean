import MythVerif.Proofs.PiDagFlattenWf
/-! `dr_pi_dag_node_first` / `last` and `dr_pi_dag_enum_edges` on a laid-out DAG, expressed on the
tree: the edge list of the flat DAG is a permutation of a list defined by recursion on the
in-memory DAG. -/
namespace MythVerif.PiDag
open MythVerif.DagRec

mutual
/-- slot of the first leaf below the node at `idx` -/
def firstN : DNode → Nat → Nat → Nat
  | .ival _, idx, _ => idx
  | .create _ _, idx, _ => idx
  | .group _ ds, idx, base => firstL ds base (base + ds.length) idx
def firstL : DList → Nat → Nat → Nat → Nat
  | .nil, _, _, dflt => dflt
  | .cons d _, k, base, _ => firstN d k base
end

mutual
/-- slot of the last leaf below the node at `idx` -/
def lastN : DNode → Nat → Nat → Nat
  | .ival _, idx, _ => idx
  | .create _ _, idx, _ => idx
  | .group _ ds, idx, base => lastL ds base (base + ds.length) idx
def lastL : DList → Nat → Nat → Nat → Nat
  | .nil, _, _, dflt => dflt
  | .cons d r, k, base, _ => lastL r (k + 1) (base + descT d) (lastN d k base)
end

theorem group_kind_facts {T : Array PNode} {i : Info} {ds : DList} {g b' : Nat}
    (hl : LayN T (.group i ds) g b') (hw : gW (.group i ds) = true) :
    isGroupK T[g]!.info.c.kind = true ∧ (0 < ds.length → g + T[g]!.a = b') ∧ T[g]!.b = T[g]!.a + ds.length ∧
      (0 < ds.length → g < b') ∧ LayL T ds b' (b' + ds.length) ∧ gWL ds = true := by
  simp only [LayN] at hl
  simp only [gW, Bool.and_eq_true] at hw
  exact ⟨by rw [hl.1]; exact hw.1, fun h => (hl.2.2.1 h).1, hl.2.1, fun h => (hl.2.2.1 h).2, hl.2.2.2, hw.2⟩

theorem nongroup_kind {T : Array PNode} {d : DNode} {g b' : Nat} (hl : LayN T d g b') (hw : gW d = true)
    (hd : ∀ i ds, d ≠ .group i ds) : isGroupK T[g]!.info.c.kind = false := by
  cases d with
  | ival i =>
    simp only [LayN] at hl
    simp only [gW, Bool.and_eq_true, Bool.not_eq_true'] at hw
    rw [hl]; exact hw.2
  | create i ch =>
    simp only [LayN] at hl
    simp only [gW, Bool.and_eq_true, beq_iff_eq] at hw
    rw [hl.1, hw.1.1]; rfl
  | group i ds => exact absurd rfl (hd i ds)

/-! ### `first` -/

mutual
theorem first_eq (T : Array PNode) : ∀ (d : DNode) (g b' fuel : Nat), LayN T d g b' → gW d = true →
    descT d ≤ fuel → first T fuel g = firstN d g b'
  | .ival i, g, b', fuel, hl, hw, _ => by
    have := nongroup_kind hl hw (fun _ _ h => by cases h)
    cases fuel <;> simp [first, firstN, this]
  | .create i ch, g, b', fuel, hl, hw, _ => by
    have := nongroup_kind hl hw (fun _ _ h => by cases h)
    cases fuel <;> simp [first, firstN, this]
  | .group i ds, g, b', fuel, hl, hw, hf => by
    obtain ⟨h1, h2, h3, h4, h5, h6⟩ := group_kind_facts hl hw
    simp only [firstN]
    cases ds with
    | nil =>
      simp only [DList.length] at h3
      have : ¬ (T[g]!.a < T[g]!.b) := by omega
      cases fuel <;> simp [first, firstL, this]
    | cons d1 r =>
      simp only [descT, descL, DList.length] at hf h3
      cases fuel with
      | zero => omega
      | succ f =>
        simp only [LayL, DList.length] at h5
        simp only [gWL, Bool.and_eq_true] at h6
        have hab : T[g]!.a < T[g]!.b := by omega
        have h2 := h2 (by simp [DList.length])
        simp only [first, h1, hab, decide_true, Bool.and_self, if_true, firstL, h2, DList.length]
        exact first_eq T d1 b' _ f h5.1 h6.1 (by omega)
end

/-! ### `last` -/

mutual
theorem last_eq (T : Array PNode) : ∀ (d : DNode) (g b' fuel : Nat), LayN T d g b' → gW d = true →
    descT d ≤ fuel → last T fuel g = lastN d g b'
  | .ival i, g, b', fuel, hl, hw, _ => by
    have := nongroup_kind hl hw (fun _ _ h => by cases h)
    cases fuel <;> simp [last, lastN, this]
  | .create i ch, g, b', fuel, hl, hw, _ => by
    have := nongroup_kind hl hw (fun _ _ h => by cases h)
    cases fuel <;> simp [last, lastN, this]
  | .group i ds, g, b', fuel, hl, hw, hf => by
    obtain ⟨h1, h2, h3, h4, h5, h6⟩ := group_kind_facts hl hw
    simp only [lastN]
    cases hds : ds with
    | nil =>
      subst hds
      simp only [DList.length] at h3
      have : ¬ (T[g]!.a < T[g]!.b) := by omega
      cases fuel <;> simp [last, lastL, this]
    | cons d1 r =>
      rw [← hds]
      have hlen : 0 < ds.length := by rw [hds]; simp [DList.length]
      have hdl := descL_eq ds
      simp only [descT] at hf
      cases fuel with
      | zero => omega
      | succ f =>
        have hab : T[g]!.a < T[g]!.b := by omega
        simp only [last, h1, hab, decide_true, Bool.and_self, if_true]
        have : g + T[g]!.b - 1 = b' + ds.length - 1 := by omega
        rw [this]
        exact lastL_eq T ds b' (b' + ds.length) f g h5 h6 (by omega) hlen
theorem lastL_eq (T : Array PNode) : ∀ (ds : DList) (k base fuel dflt : Nat), LayL T ds k base → gWL ds = true →
    descS ds ≤ fuel → 0 < ds.length → last T fuel (k + ds.length - 1) = lastL ds k base dflt
  | .nil, _, _, _, _, _, _, _, h => by simp [DList.length] at h
  | .cons d r, k, base, fuel, dflt, hl, hw, hf, _ => by
    simp only [LayL] at hl
    simp only [gWL, Bool.and_eq_true] at hw
    simp only [descS] at hf
    simp only [lastL, DList.length]
    cases hr : r with
    | nil =>
      simp only [lastL, DList.length]
      have : k + (0 + 1) - 1 = k := by omega
      rw [this]
      exact last_eq T d k base fuel hl.1 hw.1 (by omega)
    | cons d' r' =>
      rw [← hr]
      have hlen : 0 < r.length := by rw [hr]; simp [DList.length]
      have : k + (r.length + 1) - 1 = k + 1 + r.length - 1 := by omega
      rw [this]
      exact lastL_eq T r (k + 1) (base + descT d) fuel _ hl.2 hw.2 (by omega) hlen
end

/-! ### the first / last leaf is a leaf among the slots of the node -/

/-- `r` is one of the slots of the node at `idx` -/
def InN (d : DNode) (idx base r : Nat) : Prop := r = idx ∨ (base ≤ r ∧ r < base + descT d)

theorem isLeaf_of_lay {T : Array PNode} {d : DNode} {g b' : Nat} (hl : LayN T d g b') (hw : gW d = true)
    (h : ∀ i ds, d = .group i ds → ds = .nil) : isLeaf T[g]! = true := by
  unfold isLeaf
  cases d with
  | group i ds =>
    obtain ⟨h1, h2, h3, h4, h5, h6⟩ := group_kind_facts hl hw
    have := h i ds rfl
    subst this
    simp only [DList.length] at h3
    have : T[g]!.a = T[g]!.b := by omega
    simp [this]
  | ival i => rw [nongroup_kind hl hw (fun _ _ h => by cases h)]; rfl
  | create i ch => rw [nongroup_kind hl hw (fun _ _ h => by cases h)]; rfl

mutual
theorem firstN_leaf (T : Array PNode) : ∀ (d : DNode) (g b' : Nat), LayN T d g b' → gW d = true →
    InN d g b' (firstN d g b') ∧ isLeaf T[firstN d g b']! = true
  | .ival i, g, b', hl, hw => ⟨Or.inl rfl, isLeaf_of_lay hl hw (fun _ _ h => by cases h)⟩
  | .create i ch, g, b', hl, hw => ⟨Or.inl rfl, isLeaf_of_lay hl hw (fun _ _ h => by cases h)⟩
  | .group i ds, g, b', hl, hw => by
    obtain ⟨h1, h2, h3, h4, h5, h6⟩ := group_kind_facts hl hw
    cases ds with
    | nil => exact ⟨Or.inl rfl, isLeaf_of_lay hl hw (fun _ _ h => by cases h; rfl)⟩
    | cons d1 r =>
      simp only [LayL] at h5
      simp only [gWL, Bool.and_eq_true] at h6
      have ih := firstN_leaf T d1 b' _ h5.1 h6.1
      simp only [firstN, firstL]
      refine ⟨Or.inr ?_, ih.2⟩
      simp only [descT, descL, DList.length] at ih ⊢
      have := descL_eq r
      rcases ih.1 with e | e <;> omega
end

mutual
theorem lastN_leaf (T : Array PNode) : ∀ (d : DNode) (g b' : Nat), LayN T d g b' → gW d = true →
    InN d g b' (lastN d g b') ∧ isLeaf T[lastN d g b']! = true
  | .ival i, g, b', hl, hw => ⟨Or.inl rfl, isLeaf_of_lay hl hw (fun _ _ h => by cases h)⟩
  | .create i ch, g, b', hl, hw => ⟨Or.inl rfl, isLeaf_of_lay hl hw (fun _ _ h => by cases h)⟩
  | .group i ds, g, b', hl, hw => by
    obtain ⟨h1, h2, h3, h4, h5, h6⟩ := group_kind_facts hl hw
    cases hds : ds with
    | nil => subst hds; exact ⟨Or.inl rfl, isLeaf_of_lay hl hw (fun _ _ h => by cases h; rfl)⟩
    | cons d1 r =>
      rw [← hds]
      have hlen : 0 < ds.length := by rw [hds]; simp [DList.length]
      have ih := lastL_leaf T ds b' (b' + ds.length) g h5 h6 hlen
      simp only [lastN]
      refine ⟨Or.inr ?_, ih.2⟩
      simp only [descT]
      have := descL_eq ds
      omega
theorem lastL_leaf (T : Array PNode) : ∀ (ds : DList) (k base dflt : Nat), LayL T ds k base → gWL ds = true →
    0 < ds.length →
    ((k ≤ lastL ds k base dflt ∧ lastL ds k base dflt < k + ds.length) ∨
      (base ≤ lastL ds k base dflt ∧ lastL ds k base dflt < base + descS ds)) ∧
    isLeaf T[lastL ds k base dflt]! = true
  | .nil, _, _, _, _, _, h => by simp [DList.length] at h
  | .cons d r, k, base, dflt, hl, hw, _ => by
    simp only [LayL] at hl
    simp only [gWL, Bool.and_eq_true] at hw
    simp only [lastL, DList.length, descS]
    cases hr : r with
    | nil =>
      simp only [lastL, DList.length, descS]
      have ih := lastN_leaf T d k base hl.1 hw.1
      refine ⟨?_, ih.2⟩
      rcases ih.1 with e | e <;> omega
    | cons d' r' =>
      rw [← hr]
      have hlen : 0 < r.length := by rw [hr]; simp [DList.length]
      have ih := lastL_leaf T r (k + 1) (base + descT d) (lastN d k base) hl.2 hw.2 hlen
      refine ⟨?_, ih.2⟩
      omega
end

/-! ### the edges of a group, on the tree -/

/-- `create` / `end` edges of one child of a section -/
def createOf (t : Nat) : DNode → Nat → Nat → List PEdge
  | .create _ ch, y, base => [⟨.create, y, firstN ch base (base + 1)⟩, ⟨.end_, lastN ch base (base + 1), t⟩]
  | _, _, _ => []

/-- `create` / `end` edges of the create children (at slots `y, y+1, …`) of a section whose
    continuation starts at `t` -/
def createEdges (t : Nat) : DList → Nat → Nat → List PEdge
  | .nil, _, _ => []
  | .cons d r, y, base => createOf t d y base ++ createEdges t r (y + 1) (base + descT d)

/-- the `create` / `end` edges emitted for a section -/
def sectionEdges (t : Nat) : DNode → Nat → List PEdge
  | .group i ds, bx => if i.c.kind == .section then createEdges t ds bx (bx + ds.length) else []
  | _, _ => []

/-- the edges `dr_pi_dag_enum_edges` emits for the non-last child `d` at slot `x` whose successor's
    first leaf is `t` -/
def itemEdges (kf : Nat → EKind) (t : Nat) (d : DNode) (x bx : Nat) : List PEdge :=
  ⟨kf t, lastN d x bx, t⟩ :: sectionEdges t d bx

/-- the edges emitted for a group with children `ds` at slots `k, k+1, …` -/
def groupEdges (kf : Nat → EKind) : DList → Nat → Nat → List PEdge
  | .nil, _, _ => []
  | .cons d r, k, base =>
    (if r.isNil then [] else itemEdges kf (firstL r (k + 1) (base + descT d) 0) d k base) ++
      groupEdges kf r (k + 1) (base + descT d)

def nodeEdges (kf : Nat → EKind) : DNode → Nat → Nat → List PEdge
  | .group _ ds, _, b' => groupEdges kf ds b' (b' + ds.length)
  | _, _, _ => []

/-! array side -/

def createA (T : Array PNode) (t y : Nat) : List PEdge :=
  if T[y]!.info.c.kind == .createTask then
    [⟨.create, y, first T T.size (y + T[y]!.a)⟩, ⟨.end_, last T T.size (y + T[y]!.a), t⟩]
  else []

def itemA (T : Array PNode) (x : Nat) : List PEdge :=
  let t := first T T.size (x + 1)
  ⟨contKind T[t]!.info.c.inEdgeKind, last T T.size x, t⟩ ::
    (if T[x]!.info.c.kind == .section then
      (List.range' (x + T[x]!.a) (T[x]!.b - T[x]!.a)).flatMap (createA T t) else [])

theorem range_flatMap_shift {α} (lo m : Nat) (F : Nat → List α) :
    (List.range m).flatMap (fun j => F (lo + j)) = (List.range' lo m).flatMap F := by
  rw [List.range'_eq_map_range, List.flatMap_map]

theorem edgesOfGroup_eq (T : Array PNode) (i : Nat) :
    edgesOfGroup T i = if !isGroupK T[i]!.info.c.kind then [] else
      (List.range' (i + T[i]!.a) (i + T[i]!.b - (i + T[i]!.a) - 1)).flatMap (itemA T) := by
  unfold edgesOfGroup
  simp only
  split
  · rfl
  · rw [← range_flatMap_shift]
    congr 1
    funext j
    unfold itemA
    simp only
    split
    · congr 1
      rw [← range_flatMap_shift]
      rfl
    · rfl

/-- the kind `dr_pi_dag_enum_edges` gives the edge into `t` from its predecessor in the same task -/
def kfOf (T : Array PNode) (t : Nat) : EKind := contKind T[t]!.info.c.inEdgeKind

theorem kind_ne_of_nongroup {k : NKind} (h : isGroupK k = false) : (k == NKind.section) = false := by
  cases k <;> simp_all [isGroupK]

theorem createA_eq (T : Array PNode) (t : Nat) (d : DNode) (y base : Nat) (hl : LayN T d y base) (hw : gW d = true)
    (hb : base + descT d ≤ T.size) :
    createA T t y = createOf t d y base := by
  unfold createA createOf
  cases d with
  | ival i =>
    simp only [LayN] at hl
    simp only [gW, Bool.and_eq_true, Bool.not_eq_true'] at hw
    simp [hl, hw.1]
  | group i ds =>
    obtain ⟨h1, _⟩ := group_kind_facts hl hw
    have : (T[y]!.info.c.kind == NKind.createTask) = false := by
      simp only [isGroupK, Bool.or_eq_true, beq_iff_eq] at h1
      rcases h1 with h | h <;> simp [h]
    simp [this]
  | create i ch =>
    simp only [LayN] at hl
    simp only [gW, Bool.and_eq_true] at hw
    simp only [descT] at hb
    simp only [hl.1, hw.1.1, if_true, hl.2.1]
    rw [first_eq T ch base (base + 1) T.size hl.2.2.2 hw.2 (by omega),
      last_eq T ch base (base + 1) T.size hl.2.2.2 hw.2 (by omega)]

theorem createEdges_eq (T : Array PNode) (t : Nat) : ∀ (ds : DList) (y base : Nat), LayL T ds y base →
    gWL ds = true → base + descS ds ≤ T.size →
    (List.range' y ds.length).flatMap (createA T t) = createEdges t ds y base
  | .nil, _, _, _, _, _ => by simp [DList.length, createEdges]
  | .cons d r, y, base, hl, hw, hb => by
    simp only [LayL] at hl
    simp only [gWL, Bool.and_eq_true] at hw
    simp only [descS] at hb
    simp only [DList.length, createEdges, List.range'_succ, List.flatMap_cons]
    rw [createA_eq T t d y base hl.1 hw.1 (by omega),
      createEdges_eq T t r (y + 1) (base + descT d) hl.2 hw.2 (by omega)]

theorem itemA_eq (T : Array PNode) (d d' : DNode) (x bx bx' : Nat) (hl : LayN T d x bx) (hw : gW d = true)
    (hb : bx + descT d ≤ T.size) (hl' : LayN T d' (x + 1) bx') (hw' : gW d' = true) (hb' : bx' + descT d' ≤ T.size) :
    itemA T x = itemEdges (kfOf T) (firstN d' (x + 1) bx') d x bx := by
  unfold itemA itemEdges
  simp only
  rw [first_eq T d' (x + 1) bx' T.size hl' hw' (by omega), last_eq T d x bx T.size hl hw (by omega)]
  congr 1
  unfold sectionEdges
  cases d with
  | ival i =>
    have := kind_ne_of_nongroup (nongroup_kind hl hw (fun _ _ h => by cases h))
    simp [this]
  | create i ch =>
    have := kind_ne_of_nongroup (nongroup_kind hl hw (fun _ _ h => by cases h))
    simp [this]
  | group i ds =>
    obtain ⟨h1, h2, h3, h4, h5, h6⟩ := group_kind_facts hl hw
    have hk : T[x]!.info.c.kind = i.c.kind := by simp only [LayN] at hl; exact hl.1
    simp only [hk]
    split
    · have : T[x]!.b - T[x]!.a = ds.length := by omega
      rw [this]
      cases ds with
      | nil => simp [DList.length, createEdges]
      | cons d1 r1 =>
        rw [h2 (by simp [DList.length])]
        simp only [descT] at hb
        have := descL_eq (.cons d1 r1)
        exact createEdges_eq T _ _ bx _ h5 h6 (by omega)
    · rfl

theorem firstL_cons (d : DNode) (r : DList) (k base dflt : Nat) : firstL (.cons d r) k base dflt = firstN d k base := rfl

theorem groupEdges_eq (T : Array PNode) : ∀ (ds : DList) (k base : Nat), LayL T ds k base →
    gWL ds = true → base + descS ds ≤ T.size →
    (List.range' k (ds.length - 1)).flatMap (itemA T) = groupEdges (kfOf T) ds k base
  | .nil, _, _, _, _, _ => by simp [DList.length, groupEdges]
  | .cons d .nil, k, base, _, _, _ => by simp [DList.length, groupEdges, DList.isNil]
  | .cons d (.cons d' r), k, base, hl, hw, hb => by
    have ih := groupEdges_eq T (.cons d' r) (k + 1) (base + descT d) hl.2
      (by simp only [gWL, Bool.and_eq_true] at hw ⊢; exact hw.2) (by simp only [descS] at hb ⊢; omega)
    simp only [LayL] at hl
    simp only [gWL, Bool.and_eq_true] at hw
    simp only [descS] at hb
    have e : (DList.cons d (.cons d' r)).length - 1 = ((DList.cons d' r).length - 1) + 1 := by
      simp [DList.length]
    rw [e, List.range'_succ, List.flatMap_cons, ih]
    simp only [groupEdges, DList.isNil, Bool.false_eq_true, if_false, firstL_cons]
    rw [itemA_eq T d d' k base (base + descT d) hl.1 hw.1 (by omega) hl.2.1 hw.2.1 (by omega)]

theorem nodeEdges_eq (T : Array PNode) (d : DNode) (g b' : Nat) (hl : LayN T d g b') (hw : gW d = true)
    (hb : b' + descT d ≤ T.size) : edgesOfGroup T g = nodeEdges (kfOf T) d g b' := by
  rw [edgesOfGroup_eq]
  cases d with
  | ival i => simp [nongroup_kind hl hw (fun _ _ h => by cases h), nodeEdges]
  | create i ch => simp [nongroup_kind hl hw (fun _ _ h => by cases h), nodeEdges]
  | group i ds =>
    obtain ⟨h1, h2, h3, h4, h5, h6⟩ := group_kind_facts hl hw
    simp only [h1, Bool.not_true, Bool.false_eq_true, if_false, nodeEdges]
    have : g + T[g]!.b - (g + T[g]!.a) - 1 = ds.length - 1 := by omega
    rw [this]
    cases ds with
    | nil => simp [DList.length, groupEdges]
    | cons d1 r1 =>
      rw [h2 (by simp [DList.length])]
      simp only [descT] at hb
      have := descL_eq (.cons d1 r1)
      exact groupEdges_eq T _ b' _ h5 h6 (by omega)

end MythVerif.PiDag
