import MythVerif.Proofs.WsQueueTsoTac
/-! Preservation lemmas of the TSO invariant (generated per program counter of the owner): drain of an owner `ptr` store at pq, po1, ptl. -/
namespace MythVerif.WsqTso
open MythVerif.Wsq

theorem f_O_ptr_pq (s : St) (i0 x0) (rest : List Sto) : Inv s → s.opc = .pq →
    s.bufO = .ptr i0 x0 :: rest → Inv (applySto { s with bufO := rest } (.ptr i0 x0)) := by
  intro h hpc hb
  simp only [applySto]
  tso_fastO h hpc [carryC]

theorem f_O_ptr_po1 (s : St) (i0 x0) (rest : List Sto) : Inv s → s.opc = .po1 →
    s.bufO = .ptr i0 x0 :: rest → Inv (applySto { s with bufO := rest } (.ptr i0 x0)) := by
  intro h hpc hb
  simp only [applySto]
  tso_fastO h hpc [carryC]

theorem f_O_ptr_ptl (s : St) (i0 x0) (rest : List Sto) (e) : Inv s → s.opc = .ptl e →
    s.bufO = .ptr i0 x0 :: rest → Inv (applySto { s with bufO := rest } (.ptr i0 x0)) := by
  intro h hpc hb
  simp only [applySto]
  tso_fastO h hpc [carryC]

end MythVerif.WsqTso
