import MythVerif.Model.WsQueueSeq
/-! Concurrent model (sequentially consistent machine) of the work-stealing queue:
    one owner (push / pop / put / clear) and an unbounded set of other participants
    (`myth_queue_take`, `myth_wsapi_runqueue_take` with decision callback, `myth_queue_trypass`,
    `myth_queue_peek`, `myth_wsapi_runqueue_peek`), one program counter per shared access.

    Granularity.  One model step = one `MYTH_VERIF_POINT` of the instrumented source = one shared
    access, with two documented mergers: (i) accesses to `base` made while holding the queue
    lock (every writer of `base` holds the lock) are merged with the neighbouring access of the
    same statement (`b = q->base; q->base = b+1`, `q->base--`, `q->base += offset`); (ii) the
    owner's reads of `top` (only the owner writes `top`) are merged likewise (`t = q->top` after
    re-centring, `top = q->top; top--; q->top = top`).  `memmove` under the lock is one step.
    Fences are not steps of the SC machine; `fencesAfter` (Driver) lists where they occur and the
    trace acceptor checks the implementation's fence events against it.

    Ghost fields (never read by the program): `A` abstract deque (base side first), `lb`/`lt`
    logical base/top, `tr` a transient `base+1` is pending its verdict, `flO`/`flT` the element
    removed from `A` by the owner / by the lock-holding thief but not yet returned, `retd`
    everything returned so far by pop/take, `ins` everything inserted so far. -/
namespace MythVerif.Wsq

abbrev Pid := Nat      -- participants other than the owner

inductive OPc where
  | idle
  | aborted                          -- abort() reached (runqueue overflow)
  | assertFail                       -- myth_assert(top==base) of clear violated
  -- push
  | pu0 (e : Elem)                   -- t = q->top ; rbarrier
  | pul (e : Elem)                   -- spin-lock CAS
  | pub (e : Elem)                   -- if (q->base == 0) abort ; offset = (-base-1)/2
  | pum (e : Elem) (off : Int)       -- memmove
  | pus (e : Elem) (off : Int)       -- q->top += offset
  | puv (e : Elem) (off : Int)       -- q->base += offset ; t = q->top
  | pux (e : Elem) (t : Int)         -- unlock
  | pu1 (e : Elem) (t : Int)         -- q->ptr[t] = th ; wbarrier
  | pu2 (e : Elem) (t : Int)         -- q->top = t+1          (linearization point)
  -- pop
  | pq                               -- quick check top <= base
  | po1                              -- top = q->top - 1 ; q->top = top ; rwbarrier
  | po2 (t : Int)                    -- base = q->base ; base+1 < top ?   (LP of the fast path)
  | po3 (t : Int) (x : Elem)         -- ret = q->ptr[top]   (lock-free)
  | pol (t : Int)                    -- spin-lock CAS
  | po4 (t : Int)                    -- base = q->base ; base <= top ?    (LP of the slow path)
  | po5 (t : Int) (x : Elem)         -- ret = q->ptr[top]
  | po5b (t : Int) (r : Option Elem) -- q->ptr[top] = NULL
  | po5c (t : Int) (r : Option Elem) -- if (top <= base)
  | po5d (r : Option Elem)           -- wc->ptr = NULL
  | po6 (r : Option Elem)            -- unlock ; return ret
  | po7                              -- q->top = size/2
  | po8                              -- q->base = size/2
  | po9                              -- unlock ; return NULL
  -- put
  | ptl (e : Elem)                   -- spin-lock CAS
  | pt1 (e : Elem)                   -- if (q->base == 0)
  | pt2 (e : Elem)                   -- if (q->top == q->size) abort ; offset
  | pt3 (e : Elem) (off : Int)       -- memmove
  | pt4 (e : Elem) (off : Int)       -- q->top += offset
  | pt5 (e : Elem) (off : Int)       -- q->base += offset ; b = q->base
  | pt7 (e : Elem) (b : Int)         -- q->ptr[b-1] = th
  | pt8 (e : Elem) (b : Int)         -- q->base = b-1          (LP)
  | pt9                              -- unlock
  -- clear
  | cll                              -- spin-lock CAS
  | cl1                              -- (assert top==base) q->base = size/2
  | cl2                              -- q->top = q->base
  | cl3                              -- unlock
  deriving DecidableEq, Repr

inductive TPc where
  | idle
  -- myth_queue_take
  | tq0 | tq1 (t : Int)              -- quick check: read top, read base
  | tkl                              -- spin-lock CAS
  | tk1                              -- b = q->base ; q->base = b+1 ; rwbarrier
  | tk2 (b : Int)                    -- top = q->top ; b < top ?          (LP on success)
  | tk3 (b : Int) (x : Elem)         -- rbarrier ; ret = q->ptr[b]
  | tk4 (r : Option Elem)            -- unlock ; return ret
  | tk5 (b : Int)                    -- q->base = b   (roll back)
  | tk6                              -- unlock ; return NULL
  -- myth_wsapi_runqueue_take
  | wq0 | wq1 (t : Int)
  | wtl                              -- trylock CAS (failure returns NULL)
  | wk1
  | wk2 (b : Int)
  | wk3 (b : Int)                    -- ret = q->ptr[b]
  | wkd (b : Int) (r : Option Elem)  -- decidefn(ret, udata)              (LP on accept)
  | wk4 (r : Option Elem)            -- wc->ptr = NULL
  | wk4u (r : Option Elem)           -- unlock ; return ret
  | wk5 (b : Int)                    -- q->base = b
  | wk6                              -- unlock ; return NULL
  -- myth_queue_trypass
  | tpl (e : Elem)                   -- trylock CAS (failure returns 0)
  | tp1 (e : Elem)                   -- if (q->base == 0) ; b = q->base
  | tp2 (e : Elem) (b : Int)         -- q->ptr[b-1] = th ; wbarrier
  | tp3 (e : Elem) (b : Int)         -- q->base--                          (LP)
  | tp4 (ok : Bool)                  -- unlock ; return ok
  -- myth_queue_peek (lock-free)
  | kq0 | kq1 (t : Int)
  | pk1                              -- b = q->base
  | pk2 (b : Int)                    -- top = q->top ; b < top ?
  | pk3 (b : Int)                    -- rbarrier ; ret = q->ptr[b]
  -- myth_wsapi_runqueue_peek (pointer word of the steal cache)
  | vq0 | vq1 (t : Int)
  | vc0                              -- if (!wc->ptr)
  | vl                               -- trylock CAS (failure: goto start)
  | vc1                              -- if (!wc->ptr) again, under the lock
  | vk1                              -- b = q->base ; q->base = b+1 ; rwbarrier
  | vk2 (b : Int)                    -- top = q->top ; b < top ?
  | vk3 (b : Int)                    -- th = q->ptr[b]
  | vk4 (b : Int) (r : Option Elem)  -- wc->ptr = th
  | vk5 (b : Int)                    -- q->base = b
  | vu                               -- unlock
  | vr                               -- ret = wc->ptr ; return
  deriving DecidableEq, Repr

inductive Holder where
  | free | owner | thief (p : Pid)
  deriving DecidableEq, Repr

structure St where
  top  : Int
  base : Int
  ptr  : Int → Option Elem
  size : Int
  lock : Holder
  cache : Option Elem
  opc  : OPc
  tpc  : Pid → TPc
  -- ghosts
  A    : List Elem
  lb   : Int
  lt   : Int
  tr   : Bool
  flO  : Option Elem
  flT  : Option Elem
  retd : List Elem
  ins  : List Elem

/-- `myth_queue_init` -/
def init (n : Int) : St :=
  { top := n / 2, base := n / 2, ptr := fun _ => none, size := n, lock := .free, cache := none,
    opc := .idle, tpc := fun _ => .idle,
    A := [], lb := n / 2, lt := n / 2, tr := false, flO := none, flT := none, retd := [], ins := [] }

inductive Lbl where
  | oPush (e : Elem) | oPop | oPut (e : Elem) | oClear     -- the owner calls an operation
  | o                                                       -- the owner's next shared access
  | tTake (p : Pid) | tWTake (p : Pid) | tPass (p : Pid) (e : Elem) | tPeek (p : Pid) | tWPeek (p : Pid)
  | t (p : Pid)                                             -- participant p's next shared access
  | tDecide (p : Pid) (accept : Bool)                       -- the decision callback returns
  deriving DecidableEq, Repr

def retOpt (l : List Elem) : Option Elem → List Elem
  | none => l
  | some e => e :: l

/-- the owner's next step -/
def stepO (s : St) : Option St :=
  match s.opc with
  | .idle => none
  | .aborted => none
  | .assertFail => none
  | .pu0 e => if s.top = s.size then some { s with opc := .pul e } else some { s with opc := .pu1 e s.top }
  | .pul e => match s.lock with
    | .free => some { s with lock := .owner, opc := .pub e }
    | _ => some s
  | .pub e => if s.base = 0 then some { s with opc := .aborted }
              else some { s with opc := .pum e (rcOff s.base) }
  | .pum e off => some { s with ptr := shiftPtr s.ptr s.base s.top off, lb := s.lb + off, lt := s.lt + off,
                                opc := .pus e off }
  | .pus e off => some { s with top := s.top + off, opc := .puv e off }
  | .puv e off => some { s with base := s.base + off, opc := .pux e s.top }
  | .pux e t => some { s with lock := .free, opc := .pu1 e t }
  | .pu1 e t => some { s with ptr := upd s.ptr t (some e), opc := .pu2 e t }
  | .pu2 e t => some { s with top := t + 1, opc := .idle, A := s.A ++ [e], lt := s.lt + 1, ins := e :: s.ins }
  | .pq => if s.top ≤ s.base then some { s with opc := .idle } else some { s with opc := .po1 }
  | .po1 => some { s with top := s.top - 1, opc := .po2 (s.top - 1) }
  | .po2 t => if s.base + 1 < t then
                match s.A.getLast? with
                | some x => some { s with opc := .po3 t x, A := s.A.dropLast, lt := s.lt - 1, flO := some x }
                | none => none
              else some { s with opc := .pol t }
  | .po3 t _ => some { s with opc := .idle, retd := retOpt s.retd (s.ptr t), flO := none }
  | .pol t => match s.lock with
    | .free => some { s with lock := .owner, opc := .po4 t }
    | _ => some s
  | .po4 t => if s.base ≤ t then
                match s.A.getLast? with
                | some x => some { s with opc := .po5 t x, A := s.A.dropLast, lt := s.lt - 1, flO := some x }
                | none => none
              else some { s with opc := .po7 }
  | .po5 t _ => some { s with opc := .po5b t (s.ptr t) }
  | .po5b t r => some { s with ptr := upd s.ptr t none, opc := .po5c t r }
  | .po5c t r => if t ≤ s.base then some { s with opc := .po5d r } else some { s with opc := .po6 r }
  | .po5d r => some { s with cache := none, opc := .po6 r }
  | .po6 r => some { s with lock := .free, opc := .idle, retd := retOpt s.retd r, flO := none }
  | .po7 => some { s with top := s.size / 2, lt := s.size / 2, lb := s.size / 2, opc := .po8 }
  | .po8 => some { s with base := s.size / 2, opc := .po9 }
  | .po9 => some { s with lock := .free, opc := .idle }
  | .ptl e => match s.lock with
    | .free => some { s with lock := .owner, opc := .pt1 e }
    | _ => some s
  | .pt1 e => if s.base = 0 then some { s with opc := .pt2 e } else some { s with opc := .pt7 e s.base }
  | .pt2 e => if s.top = s.size then some { s with opc := .aborted }
              else some { s with opc := .pt3 e ((s.size - s.top + 1) / 2) }
  | .pt3 e off => some { s with ptr := shiftPtr s.ptr s.base s.top off, lb := s.lb + off, lt := s.lt + off,
                                opc := .pt4 e off }
  | .pt4 e off => some { s with top := s.top + off, opc := .pt5 e off }
  | .pt5 e off => some { s with base := s.base + off, opc := .pt7 e (s.base + off) }
  | .pt7 e b => some { s with ptr := upd s.ptr (b - 1) (some e), opc := .pt8 e b }
  | .pt8 e b => some { s with base := b - 1, opc := .pt9, A := e :: s.A, lb := s.lb - 1, ins := e :: s.ins }
  | .pt9 => some { s with lock := .free, opc := .idle }
  | .cll => match s.lock with
    | .free => some { s with lock := .owner, opc := .cl1 }
    | _ => some s
  | .cl1 => if s.top = s.base then
              some { s with base := s.size / 2, lb := s.size / 2, lt := s.size / 2, opc := .cl2 }
            else some { s with opc := .assertFail }
  | .cl2 => some { s with top := s.base, opc := .cl3 }
  | .cl3 => some { s with lock := .free, opc := .idle }

/-- participant `p`'s next step -/
def stepT (s : St) (p : Pid) : Option St :=
  match s.tpc p with
  | .idle => none
  | .tq0 => some { s with tpc := upd s.tpc p (.tq1 s.top) }
  | .tq1 t => if t - s.base ≤ 0 then some { s with tpc := upd s.tpc p .idle }
              else some { s with tpc := upd s.tpc p .tkl }
  | .tkl => match s.lock with
    | .free => some { s with lock := .thief p, tpc := upd s.tpc p .tk1 }
    | _ => some s
  | .tk1 => some { s with base := s.base + 1, tr := true, tpc := upd s.tpc p (.tk2 s.base) }
  | .tk2 b => if b < s.top then
                match s.A with
                | x :: A' => some { s with tpc := upd s.tpc p (.tk3 b x), A := A', lb := s.lb + 1, tr := false,
                                           flT := some x }
                | [] => none
              else some { s with tpc := upd s.tpc p (.tk5 b) }
  | .tk3 b _ => some { s with tpc := upd s.tpc p (.tk4 (s.ptr b)) }
  | .tk4 r => some { s with lock := .free, tpc := upd s.tpc p .idle, retd := retOpt s.retd r, flT := none }
  | .tk5 b => some { s with base := b, tr := false, tpc := upd s.tpc p .tk6 }
  | .tk6 => some { s with lock := .free, tpc := upd s.tpc p .idle }
  | .wq0 => some { s with tpc := upd s.tpc p (.wq1 s.top) }
  | .wq1 t => if t - s.base ≤ 0 then some { s with tpc := upd s.tpc p .idle }
              else some { s with tpc := upd s.tpc p .wtl }
  | .wtl => match s.lock with
    | .free => some { s with lock := .thief p, tpc := upd s.tpc p .wk1 }
    | _ => some { s with tpc := upd s.tpc p .idle }
  | .wk1 => some { s with base := s.base + 1, tr := true, tpc := upd s.tpc p (.wk2 s.base) }
  | .wk2 b => if b < s.top then some { s with tpc := upd s.tpc p (.wk3 b) }
              else some { s with tpc := upd s.tpc p (.wk5 b) }
  | .wk3 b => some { s with tpc := upd s.tpc p (.wkd b (s.ptr b)) }
  | .wkd _ _ => none                    -- waits for the callback's verdict (label `tDecide`)
  | .wk4 r => some { s with cache := none, tpc := upd s.tpc p (.wk4u r) }
  | .wk4u r => some { s with lock := .free, tpc := upd s.tpc p .idle, retd := retOpt s.retd r, flT := none }
  | .wk5 b => some { s with base := b, tr := false, tpc := upd s.tpc p .wk6 }
  | .wk6 => some { s with lock := .free, tpc := upd s.tpc p .idle }
  | .tpl e => match s.lock with
    | .free => some { s with lock := .thief p, tpc := upd s.tpc p (.tp1 e) }
    | _ => some { s with tpc := upd s.tpc p .idle }
  | .tp1 e => if s.base = 0 then some { s with tpc := upd s.tpc p (.tp4 false) }
              else some { s with tpc := upd s.tpc p (.tp2 e s.base) }
  | .tp2 e b => some { s with ptr := upd s.ptr (b - 1) (some e), tpc := upd s.tpc p (.tp3 e b) }
  | .tp3 e _ => some { s with base := s.base - 1, tpc := upd s.tpc p (.tp4 true), A := e :: s.A, lb := s.lb - 1,
                              ins := e :: s.ins }
  | .tp4 _ => some { s with lock := .free, tpc := upd s.tpc p .idle }
  | .kq0 => some { s with tpc := upd s.tpc p (.kq1 s.top) }
  | .kq1 t => if t - s.base ≤ 0 then some { s with tpc := upd s.tpc p .idle }
              else some { s with tpc := upd s.tpc p .pk1 }
  | .pk1 => some { s with tpc := upd s.tpc p (.pk2 s.base) }
  | .pk2 b => if b < s.top then some { s with tpc := upd s.tpc p (.pk3 b) }
              else some { s with tpc := upd s.tpc p .idle }
  | .pk3 _ => some { s with tpc := upd s.tpc p .idle }
  | .vq0 => some { s with tpc := upd s.tpc p (.vq1 s.top) }
  | .vq1 t => if t - s.base ≤ 0 then some { s with tpc := upd s.tpc p .idle }
              else some { s with tpc := upd s.tpc p .vc0 }
  | .vc0 => match s.cache with
    | some _ => some { s with tpc := upd s.tpc p .vr }
    | none => some { s with tpc := upd s.tpc p .vl }
  | .vl => match s.lock with
    | .free => some { s with lock := .thief p, tpc := upd s.tpc p .vc1 }
    | _ => some { s with tpc := upd s.tpc p .vq0 }
  | .vc1 => match s.cache with
    | some _ => some { s with tpc := upd s.tpc p .vu }
    | none => some { s with tpc := upd s.tpc p .vk1 }
  | .vk1 => some { s with base := s.base + 1, tr := true, tpc := upd s.tpc p (.vk2 s.base) }
  | .vk2 b => if b < s.top then some { s with tpc := upd s.tpc p (.vk3 b) }
              else some { s with tpc := upd s.tpc p (.vk5 b) }
  | .vk3 b => some { s with tpc := upd s.tpc p (.vk4 b (s.ptr b)) }
  | .vk4 b r => some { s with cache := r, tpc := upd s.tpc p (.vk5 b) }
  | .vk5 b => some { s with base := b, tr := false, tpc := upd s.tpc p .vu }
  | .vu => some { s with lock := .free, tpc := upd s.tpc p .vr }
  | .vr => some { s with tpc := upd s.tpc p .idle }

/-- the decision callback of `myth_wsapi_runqueue_take` returns `accept` -/
def stepD (s : St) (p : Pid) (accept : Bool) : Option St :=
  match s.tpc p with
  | .wkd b r =>
    if accept then
      match s.A with
      | x :: A' => some { s with tpc := upd s.tpc p (.wk4 r), A := A', lb := s.lb + 1, tr := false, flT := some x }
      | [] => none
    else some { s with tpc := upd s.tpc p (.wk5 b) }
  | _ => none

def callO (s : St) (pc : OPc) : Option St :=
  match s.opc with
  | .idle => some { s with opc := pc }
  | _ => none

def callT (s : St) (p : Pid) (pc : TPc) : Option St :=
  match s.tpc p with
  | .idle => some { s with tpc := upd s.tpc p pc }
  | _ => none

def step (s : St) : Lbl → Option St
  | .oPush e => callO s (.pu0 e)
  | .oPop => callO s .pq
  | .oPut e => callO s (.ptl e)
  | .oClear => callO s .cll
  | .o => stepO s
  | .tTake p => callT s p .tq0
  | .tWTake p => callT s p .wq0
  | .tPass p e => callT s p (.tpl e)
  | .tPeek p => callT s p .kq0
  | .tWPeek p => callT s p .vq0
  | .t p => stepT s p
  | .tDecide p a => stepD s p a

end MythVerif.Wsq
