import MythVerif.Model.DagRec
/-!
Model of the position independent DAG (`src/profiler/dag_recorder_impl.h`, `dr_dump.c`,
`chronological.c`, `gen_stat.c`): the arrays `T` (nodes with relative child / subgraph offsets and
edge pointers), `E` (edges), `S` (string table);

* `flatten`  — `dr_make_pi_dag`: `dr_pi_dag_enum_nodes` (the explicit stack of the C code is the
  call stack here: a popped node copies its children contiguously to the end of `T` and the
  children are then processed in order), string interning, `dr_pi_dag_enum_edges`, sort by
  `(u, v)`, `dr_pi_dag_set_edge_ptrs`;
* `shrink`   — `dr_copy_pi_dag` (the `dag2any --shrink` path): `dr_pi_dag_copy_and_prune_nodes`
  with the conversion-time contraction options, then edges / sort / pointers / strings again;
* `wellFormed` — an executable checker of everything C19 asks of a dumped / converted DAG,
  including a reachability / acyclicity certificate (an elimination order);
* `replay`   — `dr_pi_dag_chronological_traverse` with the event heap abstracted to a list and
  an arbitrary `pick` function (the C heap picks a minimal time stamp);
* `stat`     — the totals `gen_stat.c` prints.

File I/O (`dr_pi_dag_dump`, `dr_read_dag`, `mmap`) is not modelled; the round trip is checked on
the implementation.
-/
namespace MythVerif.PiDag
open MythVerif.DagRec

/-- `dr_pi_dag_node`: `info.c.start.pos.file` / `end_.pos.file` hold string-table indices;
    `a`, `b` = `child_offset, 0` for a create node, `subgraphs_begin_offset, subgraphs_end_offset`
    for a section / task, `0, 0` otherwise -/
structure PNode where
  info : Info := {}
  eb : Nat := 0
  ee : Nat := 0
  a : Nat := 0
  b : Nat := 0
  deriving Repr, Inhabited

/-- `dr_pi_dag_edge` -/
structure PEdge where
  kind : EKind
  u : Nat
  v : Nat
  deriving Repr, Inhabited, DecidableEq

structure PiDag where
  T : Array PNode := #[]
  E : Array PEdge := #[]
  S : List Nat := []          -- the string table: file names (identities) in first-interned order
  nw : Nat := 1               -- num_workers
  deriving Repr, Inhabited

/-! ### string table -/

/-- `dr_string_table_intern`: index of `f`, appended when absent -/
def intern (st : List Nat) (f : Nat) : List Nat × Nat :=
  let idx := st.idxOf f
  (if idx = st.length then st ++ [f] else st, idx)

/-- intern a sequence of names, returning the table and the index given to each name -/
def internAll : List Nat → List Nat → List Nat × List Nat
  | st, [] => (st, [])
  | st, f :: fs =>
    let (st1, i) := intern st f
    let (st2, is) := internAll st1 fs
    (st2, i :: is)

/-! ### `dr_pi_dag_enum_nodes` -/

/-- `dr_copy_dag_node_1` followed by the clock relativisation of `dr_copy_children_nodes` -/
def copyNode (sc : Nat) (st : List Nat) (i : Info) : PNode × List Nat :=
  let (st1, si) := intern st i.c.start.pos.file
  let (st2, ei) := intern st1 i.c.end_.pos.file
  let c := i.c
  ({ info := { i with c := { c with
        start := { c.start with t := c.start.t - sc, pos := { c.start.pos with file := si } },
        end_ := { c.end_ with t := c.end_.t - sc, pos := { c.end_.pos with file := ei } },
        firstReadyT := c.firstReadyT - sc, lastStartT := c.lastStartT - sc } } }, st2)

structure FlatSt where
  T : Array PNode
  st : List Nat

/-- copy all children of a group to the end of `T` -/
def pushAll (sc : Nat) : DList → FlatSt → FlatSt
  | .nil, s => s
  | .cons d r, s =>
    let (pn, st') := copyNode sc s.st d.info
    pushAll sc r { T := s.T.push pn, st := st' }

mutual
/-- process node `d` whose copy sits at `T[idx]` -/
def flatNode (sc : Nat) : DNode → Nat → FlatSt → FlatSt
  | .ival _, _, s => s
  | .create _ ch, idx, s =>
    let p := s.T.size
    let (pn, st') := copyNode sc s.st ch.info
    let T := (s.T.push pn).modify idx (fun x => { x with a := p - idx })
    flatNode sc ch p { T := T, st := st' }
  | .group _ ds, idx, s =>
    let p := s.T.size
    let s1 := pushAll sc ds s
    let T := s1.T.modify idx (fun x => { x with a := p - idx, b := s1.T.size - idx })
    flatList sc ds p { T := T, st := s1.st }
def flatList (sc : Nat) : DList → Nat → FlatSt → FlatSt
  | .nil, _, s => s
  | .cons d r, k, s => flatList sc r (k + 1) (flatNode sc d k s)
end

def enumNodes (sc : Nat) (d : DNode) : FlatSt :=
  let (pn, st) := copyNode sc [] d.info
  flatNode sc d 0 { T := #[pn], st := st }

/-! ### edges -/

def isGroupK (k : NKind) : Bool := k == .section || k == .task

/-- a node of `T` that has no materialised children -/
def isLeaf (x : PNode) : Bool := !isGroupK x.info.c.kind || x.a == x.b

/-- `dr_pi_dag_node_first` (fuel bounds the descent) -/
def first (T : Array PNode) : Nat → Nat → Nat
  | 0, g => g
  | fuel + 1, g =>
    let x := T[g]!
    if isGroupK x.info.c.kind && x.a < x.b then first T fuel (g + x.a) else g

/-- `dr_pi_dag_node_last` -/
def last (T : Array PNode) : Nat → Nat → Nat
  | 0, g => g
  | fuel + 1, g =>
    let x := T[g]!
    if isGroupK x.info.c.kind && x.a < x.b then last T fuel (g + x.b - 1) else g

/-- `dr_pi_dag_count_edges_uncollapsed` -/
def countEdges (T : Array PNode) : Nat :=
  (List.range T.size).foldl (fun acc i =>
    let u := T[i]!
    if isGroupK u.info.c.kind && u.a < u.b then
      let acc := acc + (u.b - u.a - 1)
      if u.info.c.kind == .section then
        acc + 2 * ((List.range (u.b - u.a)).countP (fun j => T[i + u.a + j]!.info.c.kind == .createTask))
      else acc
    else acc) 0

/-- the kind given to the edge into `t` from its predecessor in the same task -/
def contKind (k : EKind) : EKind :=
  match k with
  | .end_ => .waitCont
  | k => k          -- `create` cannot happen (`dr_check(0)`)

/-- the edges `dr_pi_dag_enum_edges` emits for the group at index `i` -/
def edgesOfGroup (T : Array PNode) (i : Nat) : List PEdge :=
  let n := T.size
  let u := T[i]!
  if !isGroupK u.info.c.kind then [] else
  let ua := i + u.a
  let ub := i + u.b
  (List.range (ub - ua - 1)).flatMap fun j =>
    let x := ua + j
    let s := last T n x
    let t := first T n (x + 1)
    let e0 : PEdge := ⟨contKind T[t]!.info.c.inEdgeKind, s, t⟩
    let xn := T[x]!
    if xn.info.c.kind == .section then
      e0 :: (List.range (xn.b - xn.a)).flatMap fun k =>
        let y := x + xn.a + k
        let yn := T[y]!
        if yn.info.c.kind == .createTask then
          let c := y + yn.a
          [⟨.create, y, first T n c⟩, ⟨.end_, last T n c, t⟩]
        else []
    else [e0]

def enumEdges (T : Array PNode) : List PEdge :=
  (List.range T.size).flatMap (edgesOfGroup T)

/-- `edge_cmp` -/
def edgeLe (e f : PEdge) : Bool := e.u < f.u || (e.u == f.u && e.v ≤ f.v)

/-- `dr_pi_dag_sort_edges` (all `(u, v)` pairs are distinct, so the order `qsort` produces is
    determined) -/
def sortEdges (es : List PEdge) : List PEdge := es.mergeSort edgeLe

/-- `tbl[i]` = number of edges whose source is smaller than `i` (`i = 0 .. n`) -/
def edgePtrTable (n : Nat) (E : List PEdge) : Array Nat :=
  let cnt := E.foldl (fun (c : Array Nat) e => c.modify (e.u + 1) (· + 1)) (Array.replicate (n + 1) 0)
  ((List.range (n + 1)).foldl (fun (acc : Nat × Array Nat) i =>
    let a := acc.1 + cnt[i]!
    (a, acc.2.push a)) (0, #[])).2

/-- `dr_pi_dag_set_edge_ptrs` (for `E` sorted by source): `edges_begin` = number of edges with a
    smaller source, `edges_end` = number with a source not larger -/
def setEdgePtrs (T : Array PNode) (E : List PEdge) : Array PNode :=
  let tbl := edgePtrTable T.size E
  T.mapIdx fun i x => { x with eb := tbl[i]!, ee := tbl[i + 1]! }

def finishDag (T : Array PNode) (st : List Nat) (nw : Nat) : PiDag :=
  let E := sortEdges (enumEdges T)
  { T := setEdgePtrs T E, E := E.toArray, S := st, nw := nw }

/-- `dr_make_pi_dag` -/
def flatten (sc nw : Nat) (d : DNode) : PiDag :=
  let s := enumNodes sc d
  finishDag s.T s.st nw

/-! ### `dr_copy_pi_dag`: the shrinking copy of `dag2any` -/

/-- conversion-time contraction options -/
structure ShrinkOpts where
  uncollapseMin : Nat := 0
  collapseMax : Nat := 0
  collapseMaxCount : Nat := 0
  deriving Repr, Inhabited

def mapInit : Int := -1
def mapCopy : Int := -2
def mapNoCopy : Int := -3

/-- should the children of the (copied) section / task `t` be copied too -/
def copyChildren (o : ShrinkOpts) (t : PNode) : Bool :=
  let span := t.info.c.end_.t - t.info.c.start.t
  if o.collapseMaxCount ≠ 0 && t.info.c.nc.total ≥ o.collapseMaxCount then true
  else span ≥ o.uncollapseMin && (t.info.c.worker == -1 || span ≥ o.collapseMax)

/-- step 1 of `dr_pi_dag_copy_and_prune_nodes`: the index map and the number of kept nodes -/
def pruneMap (o : ShrinkOpts) (T : Array PNode) : Array Int × Nat :=
  let n := T.size
  let map0 := (Array.replicate n mapInit).set! 0 mapCopy
  (List.range n).foldl (fun (acc : Array Int × Nat) i =>
    let (map, n_) := acc
    let t := T[i]!
    let isCopy := map[i]! == mapCopy
    let (map, n_) := if isCopy then (map.set! i (n_ : Int), n_ + 1) else (map, n_)
    let cc := isCopy && (t.info.c.kind == .createTask || (isGroupK t.info.c.kind && copyChildren o t))
    let mark := if cc then mapCopy else mapNoCopy
    if t.info.c.kind == .createTask then
      (map.set! (i + t.a) mark, n_)
    else if isGroupK t.info.c.kind then
      ((List.range (t.b - t.a)).foldl (fun m k => m.set! (i + t.a + k) mark) map, n_)
    else (map, n_)) (map0, 0)

/-- step 2: copy the kept nodes, re-intern their strings, fix the child offsets -/
def pruneCopy (T : Array PNode) (S : List Nat) (map : Array Int) : Array PNode × List Nat :=
  (List.range T.size).foldl (fun (acc : Array PNode × List Nat) i =>
    let (T_, st) := acc
    if map[i]! < (0 : Int) then acc else
    let src := T[i]!
    let mi := map[i]!.toNat
    let (st1, si) := intern st (S[src.info.c.start.pos.file]!)
    let (st2, ei) := intern st1 (S[src.info.c.end_.pos.file]!)
    let c := src.info.c
    let info : Info := { src.info with c := { c with
        start := { c.start with pos := { c.start.pos with file := si } },
        end_ := { c.end_ with pos := { c.end_.pos with file := ei } } } }
    let to : PNode := { src with info := info }
    let to : PNode :=
      if c.kind == .createTask then { to with a := (map[i + src.a]!).toNat - mi }
      else if isGroupK c.kind then
        let cb := i + src.a
        let ce := i + src.b
        if cb < ce then
          if map[cb]! ≥ (0 : Int) then { to with a := (map[cb]!).toNat - mi, b := (map[ce - 1]!).toNat - mi + 1 }
          else { to with a := 0, b := 0 }
        else to
      else to
    (T_.push to, st2)) (#[], [])

def shrink (o : ShrinkOpts) (G : PiDag) : PiDag :=
  let (map, _) := pruneMap o G.T
  let (T_, st) := pruneCopy G.T G.S map
  finishDag T_ st G.nw

/-! ### what `gen_stat.c` prints -/

/-- `dr_calc_inner_delay`: total work over the leaves of the (contracted) DAG -/
def statWork (G : PiDag) : Nat :=
  G.T.foldl (fun acc x => if isLeaf x then acc + x.info.c.t1 else acc) 0

/-- `dr_calc_edges`: `EDGE_COUNTS(k, i, j)`, `(nw+1)^2` entries per kind, row major -/
def statEdgeMatrix (G : PiDag) (k : EKind) : Array Nat :=
  let nw := G.nw
  let w (x : Int) : Nat := if x = -1 then nw else x.toNat
  let C := Array.replicate ((nw + 1) * (nw + 1)) 0
  let C := G.T.foldl (fun C t =>
    if isGroupK t.info.c.kind && t.a == t.b then
      let i := w t.info.c.worker
      C.modify (i * (nw + 1) + i) (· + t.info.c.ec.get k)
    else C) C
  G.E.foldl (fun C e =>
    if e.kind == k then
      C.modify (w G.T[e.u]!.info.c.worker * (nw + 1) + w G.T[e.v]!.info.c.worker) (· + 1)
    else C) C

/-- edges of kind `k` the `.stat` file reports in total -/
def statEdgeTotal (G : PiDag) (k : EKind) : Nat :=
  G.T.foldl (fun acc t => if isGroupK t.info.c.kind && t.a == t.b then acc + t.info.c.ec.get k else acc) 0
    + G.E.foldl (fun acc e => if e.kind == k then acc + 1 else acc) 0

/-! ### `dr_pi_dag_chronological_traverse` -/

inductive EvKind where
  | ready | start | lastStart | end_
  deriving DecidableEq, Repr, Inhabited

structure Event where
  t : Nat
  kind : EvKind
  u : Nat
  deriving Repr, Inhabited, DecidableEq

/-- state of the traversal plus the counters of a traverser (`gen_stat.c`'s `dr_basic_stat` keeps
    `n_running`, `n_ready`, `t`; the per-node event counters are what C19 speaks about) -/
structure RState where
  readyCount : Array Int
  queue : List Event
  nev : Array Nat := #[0, 0, 0, 0]
  readied : Array Nat         -- per node: ready / start / last_start / end events processed
  started : Array Nat
  lastStarted : Array Nat
  ended : Array Nat
  nRunning : Int := 0
  nReady : Int := 0
  t : Nat := 0
  cumRunning : Int := 0
  cumReady : Int := 0
  nonMono : Nat := 0
  deriving Repr, Inhabited

def evIdx : EvKind → Nat
  | .ready => 0 | .start => 1 | .lastStart => 2 | .end_ => 3

/-- first leaf: `dr_pi_dag_first_leaf` -/
def firstLeaf (G : PiDag) : Nat := first G.T G.T.size 0

/-- in-degree of every node: `ready_count` after the first loop of the traversal -/
def indegrees (G : PiDag) : Array Nat :=
  G.E.foldl (fun rc e => rc.modify e.v (· + 1)) (Array.replicate G.T.size (0 : Nat))

/-- the out-edges the traversal walks when node `u` ends: `E[edges_begin .. edges_end)` -/
def outEdges (G : PiDag) (u : Nat) : List PEdge :=
  (G.E.extract G.T[u]!.eb G.T[u]!.ee).toList

def initReplay (G : PiDag) : RState :=
  let n := G.T.size
  { readyCount := (indegrees G).map Int.ofNat, queue := [⟨0, .ready, firstLeaf G⟩],
    readied := Array.replicate n 0, started := Array.replicate n 0,
    lastStarted := Array.replicate n 0, ended := Array.replicate n 0 }

/-- the traverser's `process_event` (counters only) -/
def account (s : RState) (ev : Event) : RState :=
  let dt : Int := (ev.t : Int) - s.t
  let s := { s with cumRunning := s.cumRunning + s.nRunning * dt, cumReady := s.cumReady + s.nReady * dt,
                    nonMono := if ev.t < s.t then s.nonMono + 1 else s.nonMono,
                    nev := s.nev.modify (evIdx ev.kind) (· + 1), t := ev.t }
  match ev.kind with
  | .ready => { s with nReady := s.nReady + 1, readied := s.readied.modify ev.u (· + 1) }
  | .start => { s with nRunning := s.nRunning + 1, started := s.started.modify ev.u (· + 1) }
  | .lastStart => { s with nReady := s.nReady - 1, lastStarted := s.lastStarted.modify ev.u (· + 1) }
  | .end_ => { s with nRunning := s.nRunning - 1, ended := s.ended.modify ev.u (· + 1) }

/-- the loop over the out-edges of a node that just ended -/
def releaseEdges (tEnd : Nat) : List PEdge → RState → RState
  | [], s => s
  | e :: es, s =>
    let rc := s.readyCount.modify e.v (· - 1)
    let s := { s with readyCount := rc }
    let s := if rc[e.v]! == 0 then { s with queue := s.queue ++ [⟨tEnd, .ready, e.v⟩] } else s
    releaseEdges tEnd es s

/-- the body of the `while (F->n)` loop for the dequeued event `ev` -/
def processEvent (G : PiDag) (s : RState) (ev : Event) : RState :=
  let x := G.T[ev.u]!
  let s :=
    match ev.kind with
    | .ready => { s with queue := s.queue ++ [⟨x.info.c.start.t, .start, ev.u⟩] }
    | .start => { s with queue := s.queue ++ [⟨x.info.c.lastStartT, .lastStart, ev.u⟩] }
    | .lastStart => { s with queue := s.queue ++ [⟨x.info.c.end_.t, .end_, ev.u⟩] }
    | .end_ => releaseEdges x.info.c.end_.t (outEdges G ev.u) s
  account s ev

/-- run the traversal; `pick q` chooses which pending event is dequeued next (any index; indices
    outside the queue wrap around) -/
def replayWith (pick : List Event → Nat) (G : PiDag) : Nat → RState → RState
  | 0, s => s
  | fuel + 1, s =>
    match s.queue with
    | [] => s
    | q@(_ :: _) =>
      let k := pick q % q.length
      let ev := q[k]!
      replayWith pick G fuel (processEvent G { s with queue := q.eraseIdx k } ev)

/-- the C heap dequeues an event of minimal time stamp -/
def pickMin (q : List Event) : Nat :=
  let rec go (best bestT i : Nat) : List Event → Nat
    | [] => best
    | e :: es => if e.t < bestT then go i e.t (i + 1) es else go best bestT (i + 1) es
  match q with
  | [] => 0
  | e :: es => go 0 e.t 1 es

def replay (G : PiDag) : RState := replayWith pickMin G (4 * G.T.size + 4) (initReplay G)

/-! ### the well-formedness checker -/

/-- elimination order: in-degree driven elimination from the first leaf (Kahn) -/
def eliminate (G : PiDag) : List Nat :=
  let n := G.T.size
  let rec go (fuel : Nat) (rc : Array Nat) (work : List Nat) (acc : List Nat) : List Nat :=
    match fuel, work with
    | 0, _ => acc.reverse
    | _, [] => acc.reverse
    | fuel + 1, u :: work =>
      let (rc, work) := (outEdges G u).foldl (fun (st : Array Nat × List Nat) e =>
        match st with
        | (rc, work) =>
          let rc := rc.modify e.v (· - 1)
          if rc[e.v]! == 0 then (rc, e.v :: work) else (rc, work)) (rc, work)
      go fuel rc work (u :: acc)
  go (n + 1) (indegrees G) [firstLeaf G] []

structure WfReport where
  offsets : Bool      -- child / subgraph offsets inside the DAG, children blocks contiguous and disjoint
  edgeEnds : Bool     -- edge endpoints are leaves inside the DAG
  grouped : Bool      -- edges sorted by source, edges_begin/end a partition of E
  counted : Bool      -- m = dr_pi_dag_count_edges_uncollapsed
  strings : Bool      -- file indices inside the string table, no duplicate names
  degrees : Bool      -- in-degrees counted through the per-node edge ranges = in-degrees over all of E
  certificate : Bool  -- the elimination order is a topological order covering every leaf
  deriving Repr, Inhabited

def wfOffsets (G : PiDag) : Bool :=
  let n := G.T.size
  n > 0 &&
  -- every node except the root is the child of exactly one node
  let cover := (List.range n).foldl (fun (c : Array Nat) i =>
    let x := G.T[i]!
    if x.info.c.kind == .createTask then c.modify (i + x.a) (· + 1)
    else if isGroupK x.info.c.kind then (List.range (x.b - x.a)).foldl (fun c k => c.modify (i + x.a + k) (· + 1)) c
    else c) (Array.replicate n 0)
  (List.range n).all (fun i =>
    let x := G.T[i]!
    (if x.info.c.kind == .createTask then 0 < x.a && i + x.a < n && G.T[i + x.a]!.info.c.kind == .task
     else if isGroupK x.info.c.kind then x.a == x.b || (0 < x.a && x.a < x.b && i + x.b ≤ n)
     else true)
    && cover[i]! == (if i = 0 then 0 else 1))

def wfEdgeEnds (G : PiDag) : Bool :=
  let n := G.T.size
  G.E.all (fun e => e.u < n && e.v < n && isLeaf G.T[e.u]! && isLeaf G.T[e.v]!)

def wfGrouped (G : PiDag) : Bool :=
  let n := G.T.size
  let m := G.E.size
  n > 0 && G.T[0]!.eb == 0 && G.T[n - 1]!.ee == m &&
  (List.range n).all (fun i =>
    let x := G.T[i]!
    x.eb ≤ x.ee && x.ee ≤ m && (i + 1 ≥ n || G.T[i + 1]!.eb == x.ee) &&
    (List.range (x.ee - x.eb)).all (fun k => G.E[x.eb + k]!.u == i)) &&
  (List.range (m - 1)).all (fun j => G.E[j]!.u ≤ G.E[j + 1]!.u)

def wfStrings (G : PiDag) : Bool :=
  G.T.all (fun x => x.info.c.start.pos.file < G.S.length && x.info.c.end_.pos.file < G.S.length) &&
  decide G.S.Nodup

/-- in-degrees counted by walking, for every node, the edges between its `edges_begin` and
    `edges_end` (what the traversal does) -/
def sliceDegrees (G : PiDag) : Array Nat :=
  (List.range G.T.size).foldl (fun rc u => (outEdges G u).foldl (fun rc e => rc.modify e.v (· + 1)) rc)
    (Array.replicate G.T.size (0 : Nat))

@[noinline] def arrEqUpTo (n : Nat) (a b : Array Nat) : Bool :=
  (List.range n).all (fun v => a[v]! == b[v]!)

def wfDegrees (G : PiDag) : Bool := arrEqUpTo G.T.size (sliceDegrees G) (indegrees G)

/-- position of every node in the elimination order (`k` = position of the head) -/
def positionsFrom : Nat → List Nat → Array (Option Nat) → Array (Option Nat)
  | _, [], p => p
  | k, u :: r, p => positionsFrom (k + 1) r (p.setIfInBounds u (some k))

def positions (n : Nat) (ord : List Nat) : Array (Option Nat) :=
  positionsFrom 0 ord (Array.replicate n none)

/-- is `ord` (with position table `pos`) a topological order that starts at the first leaf `fl`
    and covers exactly the leaves; does every leaf but the first have a predecessor and no other
    node one -/
@[noinline] def checkOrder (G : PiDag) (ord : List Nat) (pos : Array (Option Nat)) (indeg : Array Nat) (fl : Nat) : Bool :=
  let n := G.T.size
  if ord.head? != some fl then false
  else if !(ord.all (fun u => u < n && isLeaf G.T[u]!)) then false
  else if !(decide ord.Nodup) then false
  else if !((List.range n).all (fun i =>
      if isLeaf G.T[i]! then pos[i]!.isSome && (if i = fl then indeg[i]! == 0 else indeg[i]! > 0)
      else indeg[i]! == 0)) then false
  else (List.range n).all (fun u => (outEdges G u).all (fun e => match pos[u]!, pos[e.v]! with
    | some a, some b => a < b
    | _, _ => false))

def wfCertificate (G : PiDag) : Bool :=
  let ord := eliminate G
  checkOrder G ord (positions G.T.size ord) (indegrees G) (firstLeaf G)

def wfReport (G : PiDag) : WfReport :=
  { offsets := wfOffsets G, edgeEnds := wfEdgeEnds G, grouped := wfGrouped G,
    counted := G.E.size == countEdges G.T, strings := wfStrings G, degrees := wfDegrees G,
    certificate := wfCertificate G }

/-- **the executable well-formedness predicate of C19** -/
def wellFormed (G : PiDag) : Bool :=
  let r := wfReport G
  r.offsets && r.edgeEnds && r.grouped && r.counted && r.strings && r.degrees && r.certificate

end MythVerif.PiDag
