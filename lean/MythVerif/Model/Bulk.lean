/-!
# Model of the bulk fork-join helpers (C17)

Transcribed from `src/myth_sched_func.h`:
`myth_create_join_various_ex_aux`, `myth_create_join_various_ex_body`,
`myth_create_join_many_ex_body`.

* `FJ ε` is the fork-join structure a call builds: a leaf runs its effects on the current
  thread; `fork pre l r post` runs `pre`, creates a thread for `l` (`myth_create_ex_body`),
  runs `r` on the current thread, joins the created thread (`myth_join_body`) and then runs
  `post`.  `FJ.seq` is the order in which one worker executes it (a created thread runs first:
  `child_first`), `Sched` are all orders `1..N` workers can produce (every interleaving of the
  two sides between the creation and the join).
* The recursion of `myth_create_join_various_ex_aux` is modelled with fuel: it is *not*
  structurally terminating in C (for `b - a == 0` it would split `[a,a)` for ever), so that
  the model may not assume what has to be proved.  `none` = fuel exhausted.

Core Lean only (this file is linked into `drv_bulk`).
-/
namespace MythVerif.Bulk

/-- fork-join structure of one call -/
inductive FJ (ε : Type) where
  | leaf (es : List ε) : FJ ε
  | fork (pre : List ε) (l r : FJ ε) (post : List ε) : FJ ε

namespace FJ
variable {ε : Type}

/-- execution order on one worker with `child_first` creation: the created thread runs to
    completion first (its creator is pushed to the run queue), then the creator continues -/
def seq : FJ ε → List ε
  | leaf es => es
  | fork pre l r post => pre ++ l.seq ++ r.seq ++ post

/-- number of threads created -/
def forks : FJ ε → Nat
  | leaf _ => 0
  | fork _ l r _ => 1 + l.forks + r.forks

/-- depth of the creation tree (stack of nested joins) -/
def depth : FJ ε → Nat
  | leaf _ => 0
  | fork _ l r _ => 1 + max l.depth r.depth

end FJ

/-- `Interleave l r m`: `m` is an interleaving of `l` and `r` (each keeps its own order) -/
inductive Interleave {ε : Type} : List ε → List ε → List ε → Prop where
  | nil : Interleave [] [] []
  | left {x l r m} : Interleave l r m → Interleave (x :: l) r (x :: m)
  | right {x l r m} : Interleave l r m → Interleave l (x :: r) (x :: m)

/-- `Sched t s`: `s` is a possible order of the effects of `t` on any number of workers.
    What is assumed about the thread library (property C01): the created thread and the
    continuation run in any interleaving; everything of both precedes what follows the join. -/
inductive Sched {ε : Type} : FJ ε → List ε → Prop where
  | leaf (es) : Sched (.leaf es) es
  | fork {pre l r post sl sr m} : Sched l sl → Sched r sr → Interleave sl sr m →
      Sched (.fork pre l r post) (pre ++ m ++ post)

/-! ### the helpers -/

/-- the arguments of `myth_create_join_various_ex` (addresses and byte strides; `none` = NULL).
    `ids`, `results`, `attrs` may be NULL. -/
structure Params where
  ids : Option Nat := none
  attrs : Option Nat := none
  funcs : Nat := 0
  args : Nat := 0
  results : Option Nat := none
  idStride : Nat := 0
  attrStride : Nat := 0
  funcStride : Nat := 0
  argStride : Nat := 0
  resStride : Nat := 0
deriving Repr, DecidableEq

/-- observable effects.  `storeId a i` : `((myth_thread_t*)a)[0] = myth_self()` by item `i`;
    `call f x i` : `(*(myth_func_t*)f)(x)` for item `i`; `storeRes a i` : `((void**)a)[0] = y`
    with `y` the value returned by the call of item `i`; `split`, `attr`, `joined` are the
    structural events (hook points `MYTH_VP_BULK_*`). -/
inductive Eff where
  | storeId (addr item : Nat)
  | call (faddr argaddr item : Nat)
  | storeRes (addr item : Nat)
  | split (a c b : Nat)
  | attr (addr : Option Nat) (a : Nat)
  | joined (a c b : Nat)
deriving Repr, DecidableEq

/-- `b - a == 1` branch of the aux function: item `a` -/
def item (p : Params) (a : Nat) : List Eff :=
  (match p.ids with
    | some ids => [Eff.storeId (ids + a * p.idStride) a]
    | none => []) ++
  [Eff.call (p.funcs + a * p.funcStride) (p.args + a * p.argStride) a] ++
  (match p.results with
    | some res => [Eff.storeRes (res + a * p.resStride) a]
    | none => [])

/-- `myth_create_join_various_ex_aux` on `[a,b)`; `none` = out of fuel.
    C: `if (b - a == 1) {leaf} else { c = (a + b) / 2; create aux[a,c) with attrs + a*attr_stride;
    aux[c,b); join }`.  (`long` arithmetic; `a ≤ b` on every path from the entry point, where
    the truncated `Nat` subtraction agrees with C.) -/
def auxF (p : Params) : Nat → Nat → Nat → Option (FJ Eff)
  | 0, _, _ => none
  | fuel + 1, a, b =>
    if b - a = 1 then some (.leaf (item p a))
    else
      let c := (a + b) / 2
      match auxF p fuel a c, auxF p fuel c b with
      | some l, some r =>
        some (.fork [Eff.split a c b, Eff.attr (p.attrs.map (· + a * p.attrStride)) a] l r
                    [Eff.joined a c b])
      | _, _ => none

/-- `myth_create_join_various_ex_body`: `if (nthreads == 0) return 0;` else the aux on `[0,n)` -/
def variousF (p : Params) (fuel n : Nat) : Option (FJ Eff) :=
  if n = 0 then some (.leaf []) else auxF p fuel 0 n

/-- `myth_create_join_many_ex_body`: `myth_func_t funcs[1] = { func };` (a local at address
    `slot`) and the various body with function stride 0 -/
def manyF (ids attrs : Option Nat) (slot args : Nat) (results : Option Nat)
    (idStride attrStride argStride resStride : Nat) (fuel n : Nat) : Option (FJ Eff) :=
  variousF { ids, attrs, funcs := slot, args, results, idStride, attrStride,
             funcStride := 0, argStride, resStride } fuel n

/-- the sequential loop the helpers must equal:
    `for (i = 0; i < n; i++) { ids[i] = self; results[i] = f_i(args + i*stride); }` -/
def loop (p : Params) (n : Nat) : List Eff :=
  (List.range n).flatMap (item p)

/-- the item effects among all effects -/
def Eff.isItem : Eff → Bool
  | .storeId .. | .call .. | .storeRes .. => true
  | _ => false

/-- address written by an effect (8-byte stores of one `myth_thread_t` / `void*`) -/
def Eff.written : Eff → Option Nat
  | .storeId a _ => some a
  | .storeRes a _ => some a
  | _ => none

/-- address of a result store -/
def Eff.resAddr : Eff → Option Nat
  | .storeRes a _ => some a
  | _ => none

/-- address of a thread-id store -/
def Eff.idAddr : Eff → Option Nat
  | .storeId a _ => some a
  | _ => none

/-- (function slot, argument address) of a call -/
def Eff.callOf : Eff → Option (Nat × Nat)
  | .call f x _ => some (f, x)
  | _ => none

/-- the fuel the driver uses (any fuel ≥ `n` is enough, see `Proofs/Bulk`) -/
def fuelFor (n : Nat) : Nat := n + 1

end MythVerif.Bulk
