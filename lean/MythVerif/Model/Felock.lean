import MythVerif.Basic.Upd
import MythVerif.Basic.Run
/-!
Model of the full/empty lock (`myth_felock_*_body`, `myth_sync_func.h`) over the ABSTRACT mutex
and condition-variable interface established by C04 / C05: `acquire` / `release` are atomic,
`wait` releases the mutex and enqueues the caller as one step (C05_atomic_release_wait — every
signal here is issued under the mutex), `signal` wakes the head of the queue or does nothing.

On top of the lock a single-slot mailbox: producers `wait_and_lock(0); put; mark_and_signal(1)`,
consumers `wait_and_lock(1); take; mark_and_signal(0)`; any number of threads, each may act as
producer or consumer at different times, plain lock/unlock mixed in.
-/
namespace MythVerif.Felock

abbrev Tid := Nat
abbrev Item := Nat

inductive PC where
  | idle
  | wl (s : Nat)       -- inside wait_and_lock(s): must acquire the mutex (first time or after a wake-up)
  | chk (s : Nat)      -- holds the mutex, about to read `status`
  | tw (s : Nat)       -- read a status ≠ s: about to wait on cond[s] (release + enqueue)
  | slp (s : Nat)      -- asleep on cond[s]
  | got (s : Nat)      -- wait_and_lock(s) returned: holds the lock, status = s
  | pPut               -- producer: item stored, before mark_and_signal(1)
  | cTook              -- consumer: item taken, before mark_and_signal(0)
  | ms1 (v : Nat)      -- mark_and_signal(v): status written, about to signal cond[v]
  | ms2                -- signalled, about to unlock
  | lk                 -- plain lock: must acquire
  | hp                 -- plain lock held
  deriving DecidableEq, Repr

structure St where
  holder : Option Tid
  status : Nat
  cw : Nat → List Tid        -- waiters of cond[0], cond[1]
  pc : Tid → PC
  slot : Option Item
  -- ghosts
  produced : List Item
  consumed : List Item
  issuedPut : Nat            -- wait_and_lock(0) calls started
  issuedTake : Nat
  donePut : Nat              -- items stored
  doneTake : Nat

def init : St :=
  { holder := none, status := 0, cw := fun _ => [], pc := fun _ => .idle, slot := none,
    produced := [], consumed := [], issuedPut := 0, issuedTake := 0, donePut := 0, doneTake := 0 }

inductive Lbl where
  | walStart (t : Tid) (s : Nat)
  | lockStart (t : Tid)
  | acquire (t : Tid)
  | check (t : Tid) (v : Nat)
  | waitRel (t : Tid)
  | put (t : Tid) (x : Item)
  | take (t : Tid) (x : Item)
  | markSet (t : Tid) (v : Nat)
  | sig (t : Tid) (x : Option Tid)
  | release (t : Tid)
  deriving DecidableEq, Repr

def step (s : St) : Lbl → Option St
  | .walStart t w =>
      if s.pc t = .idle ∧ w < 2 then
        some { s with pc := upd s.pc t (.wl w), issuedPut := s.issuedPut + (1 - w), issuedTake := s.issuedTake + w }
      else none
  | .lockStart t =>
      if s.pc t = .idle then some { s with pc := upd s.pc t .lk } else none
  | .acquire t =>
      if s.holder = none then
        match s.pc t with
        | .wl w => some { s with holder := some t, pc := upd s.pc t (.chk w) }
        | .lk => some { s with holder := some t, pc := upd s.pc t .hp }
        | _ => none
      else none
  | .check t v =>
      match s.pc t with
      | .chk w =>
          if v = s.status ∧ s.holder = some t then
            (if v = w then some { s with pc := upd s.pc t (.got w) }
             else some { s with pc := upd s.pc t (.tw w) })
          else none
      | _ => none
  | .waitRel t =>
      match s.pc t with
      | .tw w =>
          if s.holder = some t then
            some { s with holder := none, cw := upd s.cw w (s.cw w ++ [t]), pc := upd s.pc t (.slp w) }
          else none
      | _ => none
  | .put t x =>
      if s.pc t = .got 0 ∧ s.holder = some t then
        some { s with slot := some x, produced := x :: s.produced, pc := upd s.pc t .pPut, donePut := s.donePut + 1 }
      else none
  | .take t x =>
      if s.pc t = .got 1 ∧ s.holder = some t ∧ s.slot = some x then
        some { s with slot := none, consumed := x :: s.consumed, pc := upd s.pc t .cTook, doneTake := s.doneTake + 1 }
      else none
  | .markSet t v =>
      if s.holder = some t ∧ ((s.pc t = .pPut ∧ v = 1) ∨ (s.pc t = .cTook ∧ v = 0)) then
        some { s with status := v, pc := upd s.pc t (.ms1 v) }
      else none
  | .sig t x =>
      match s.pc t with
      | .ms1 v =>
          match s.cw v, x with
          | [], none => some { s with pc := upd s.pc t .ms2 }
          | y :: rest, some x' =>
              if x' = y then some { s with cw := upd s.cw v rest, pc := upd (upd s.pc y (.wl v)) t .ms2 }
              else none
          | _, _ => none
      | _ => none
  | .release t =>
      if s.holder = some t ∧ (s.pc t = .ms2 ∨ s.pc t = .hp) then
        some { s with holder := none, pc := upd s.pc t .idle }
      else none

/-- will change or has just changed the status on behalf of waiters for `w` -/
def act (w : Nat) : PC → Bool
  | .chk w' => w' = w
  | .got w' => w' = w
  | .pPut | .cTook | .ms1 _ => true
  | _ => false

/-- holds the mutex according to its program counter -/
def holds : PC → Bool
  | .chk _ | .tw _ | .got _ | .pPut | .cTook | .ms1 _ | .ms2 | .hp => true
  | _ => false

end MythVerif.Felock
