/-!
Arithmetic of the join counter's packed state word (`src/myth_sync_func.h`):

* `calc_bits(x)`: `int b = 0; while (x >= (1L << b)) b++; return b;`
* `myth_join_counter_init_body`: `b = calc_bits(n_threads); mask = (1L << b) - 1;
  n_threads_bits = b; state_mask = mask; assert((n_threads & mask) == n_threads); state = 0;`
* `wait`: `(s & state_mask) == n_threads` → return, else `new_s = s + (1L << n_threads_bits)`
* `dec`: `n_decs = s & state_mask; … assert(((s + 1) & state_mask) == n_decs + 1); CAS(s, s + 1);
  if (n_decs == n_threads - 1) wake (s >> n_threads_bits) threads`

The word is `waiters * 2^b + decs`.  Everything is over `Nat` (unbounded); `Representable` is the
explicit, decidable condition under which the 64-bit `long` computes the same (see
`Proofs/JcArith.lean`, section BitVec).
-/
namespace MythVerif.JcArith

/-- the loop of `calc_bits`, entered with the current `b` -/
def calcBitsFrom (x b : Nat) : Nat :=
  if x ≥ 2 ^ b then calcBitsFrom x (b + 1) else b
termination_by x + 1 - 2 ^ b
decreasing_by
  have h2 : 1 ≤ 2 ^ b := Nat.one_le_two_pow
  omega

/-- `calc_bits` (for `x ≥ 0`; a negative argument gives 0 in the code as well: the loop is not
    entered) -/
def calcBits (x : Nat) : Nat := calcBitsFrom x 0

/-- `state_mask = (1L << b) - 1` -/
def mask (n : Nat) : Nat := 2 ^ calcBits n - 1

/-- the packed word -/
def pack (b decs waiters : Nat) : Nat := waiters * 2 ^ b + decs
/-- `s & state_mask` -/
def decsOf (n s : Nat) : Nat := s &&& mask n
/-- `s >> n_threads_bits` -/
def waitersOf (n s : Nat) : Nat := s >>> calcBits n

/-- `(n, waiters)` is representable in the 64-bit signed state word: `calc_bits` does not shift
    into the sign bit and the largest word `waiters * 2^b + n` stays below 2^63 -/
def Representable (n waiters : Nat) : Prop := n < 2 ^ 62 ∧ waiters < 2 ^ (63 - calcBits n)
instance (n w : Nat) : Decidable (Representable n w) := by unfold Representable; exact inferInstance

/-- one `myth_join_counter_dec_body` on state `s` (no concurrency): `none` = "excess threads",
    otherwise the new word and the number of threads the last decrementer wakes -/
def dec (n s : Nat) : Option (Nat × Nat) :=
  let d := decsOf n s
  if d ≥ n then none
  else some (s + 1, if d = n - 1 then waitersOf n s else 0)

/-- the announcement step of `myth_join_counter_wait_body`: `none` = return at once (all
    decrements seen), otherwise the word after `s + (1L << b)` -/
def waitAnnounce (n s : Nat) : Option Nat :=
  if decsOf n s = n then none else some (s + 2 ^ calcBits n)

end MythVerif.JcArith
