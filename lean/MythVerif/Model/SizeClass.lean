import MythVerif.Generated.Consts
/-!
Size classes of the internal allocator (`myth_misc_func.h`): `MYTH_MALLOC_SIZE_TO_INDEX(s) =
32 - __builtin_clz(s-1)` (on the 32-bit truncation of `s-1`), `RSIZE(i) = 1 << i`, and the stack
block layout of `get_new_myth_thread_struct_stack` (size rounded up to 4 KiB, two words at the
top: the stack pointer handed to the thread and, above it, the size word; 0 = default size).
-/
namespace MythVerif.SizeClass

/-- `32 - clz32(x)` for `0 < x < 2^32` is the bit length of `x` -/
def sizeToIndex (s : Nat) : Nat := Nat.log2 (s - 1) + 1
def rsize (i : Nat) : Nat := 2 ^ i
def freeListNum : Nat := Gen.freeListNum

/-- `size_in_bytes += 0xFFF; size_in_bytes &= ~0xFFF` -/
def roundPage (s : Nat) : Nat := (s + 4095) / 4096 * 4096

/-- the pointer `get_new_myth_thread_struct_stack` returns for a block at `base` -/
def stackTop (base size : Nat) : Nat := base + roundPage size - 16
/-- where the size word lives -/
def sizeWord (base size : Nat) : Nat := stackTop base size + 8
/-- `free_myth_thread_struct_stack` recovers the block start from the pointer and the size word:
    `ptr - blk + 16` in pointer arithmetic, written `ptr + 16 - blk` to stay inside `Nat` -/
def blockStart (top blk : Nat) : Nat := top + 16 - blk

end MythVerif.SizeClass
