import MythVerif.Basic.Upd
import MythVerif.Basic.Run
import MythVerif.Model.Env
/-!
Model of the init-once protocol of `src/myth_init.c` / `src/myth_init_func.h`
(`myth_ensure_init_ex`, `myth_init_ex_body`, `myth_init_once_ctl_try_set/_wait`,
`myth_init_ex_body_really`, `myth_fini_body`) as a labelled transition system, one step per
shared access of `g_myth_init_state`, over an unbounded set of calling threads, and of the rank
arithmetic of `src/myth_worker_func.h` (`myth_env_get_first_busy`, `myth_random`).

* `state` is `g_myth_init_state` (the three enum values come from the translator);
* `gattr` is `g_attr`; its `initialized` flag persists across `myth_fini` (as in the code: the
  defaults are computed from the environment once per process, unless an attribute is passed);
* `workers` are the ranks of the running workers (`myth_worker_thread_fn(i)`, `i = 0` being the
  caller's own OS thread); `mainOn` is the rank the main user thread currently runs on (work
  stealing may move it, `myth_startpoint_exit_ex_body(0)` brings it back before the joins);
* ghost: `epoch` counts completed finalisations, `inits e` counts the executions of
  `myth_init_ex_body_really` in epoch `e`.
Caller obligations built into the labels (outside C15's quantifier): at most one thread at a
time is inside `myth_fini` (the finaliser is a separate agent `fin`); attributes passed to
`myth_init_ex` / set with `myth_globalattr_set_n_workers(NULL, n)` request at least one worker;
the global attribute is not modified while the library is running.
-/
namespace MythVerif.InitOnce
open MythVerif.Env

abbrev Tid := Nat

abbrev sUninit : Nat := Gen.initUninit
abbrev sInitializing : Nat := Gen.initInitializing
abbrev sInitialized : Nat := Gen.initInitialized

/-- program counter of a caller inside `myth_ensure_init_ex` / `myth_init_ex_body` -/
inductive PC where
  | idle
  | e0    -- `myth_ensure_init_ex`: about to read the state (inline fast path)
  | i0    -- `myth_init_ex_body`: about to read the state
  | i1    -- about to CAS uninit → initializing
  | i2    -- CAS lost: `myth_init_once_ctl_wait`, about to read the state
  | i3    -- CAS won: about to run `myth_init_ex_body_really`
  | i4    -- about to store `initialized`
  deriving DecidableEq, Repr

/-- program counter of the finaliser inside `myth_fini_body` -/
inductive FPC where
  | idle
  | f0    -- about to read the state
  | f1    -- `myth_init_once_ctl_wait(initialized)`, about to read the state
  | f2    -- `myth_startpoint_exit_ex_body(0)`: return to worker 0, tell the workers to exit
  | f3    -- `pthread_join` of workers 1..n-1, `myth_fini_body_really`
  | f4    -- about to store `uninit`
  deriving DecidableEq, Repr

structure St where
  state : Nat
  gattr : GAttr
  environ : Environ
  workers : List Nat
  mainOn : Nat
  epoch : Nat
  inits : Nat → Nat
  pc : Tid → PC
  arg : Tid → Option GAttr
  fin : FPC

def gattrZero : GAttr :=
  { stacksize := 0, guardsize := 0, nWorkers := 0, bindWorkers := 0, childFirst := 0, initialized := false }

def init : St :=
  { state := sUninit, gattr := gattrZero, environ := {}, workers := [], mainOn := 0, epoch := 0,
    inits := fun _ => 0, pc := fun _ => .idle, arg := fun _ => none, fin := .idle }

inductive Label where
  | callInit (t : Tid) (a : Option GAttr)  -- `myth_init()` (`none`) / `myth_init_ex(&a)`
  | callEnsure (t : Tid)                   -- any API function: `myth_ensure_init()`
  | step (t : Tid)                         -- the next shared access of `t`'s pending call
  | callFini                               -- `myth_fini()`
  | finStep
  | setenv (e : Environ)                   -- the environment changes
  | setGlobal (n : Int)                    -- `myth_globalattr_set_n_workers(NULL, n)`
  | migrate (r : Nat)                      -- the main user thread is stolen by worker `r`

/-- the attribute argument requests at least one worker -/
def attrOk : Option GAttr → Bool
  | none => true
  | some a => decide (a.nWorkers > 0)

/-- `if (attr) g_attr = *attr; else if (!g_attr.initialized) myth_globalattr_init_body(&g_attr);` -/
def resolve (ncpu : Int) (s : St) (a : Option GAttr) : GAttr :=
  match a with
  | some x => x
  | none => if s.gattr.initialized then s.gattr else gattrDefault s.environ ncpu

def step (ncpu : Int) (s : St) : Label → Option St
  | .callInit t a =>
    if s.pc t = .idle ∧ attrOk a = true then some { s with pc := upd s.pc t .i0, arg := upd s.arg t a } else none
  | .callEnsure t =>
    if s.pc t = .idle then some { s with pc := upd s.pc t .e0, arg := upd s.arg t none } else none
  | .step t =>
    match s.pc t with
    | .idle => none
    | .e0 =>
      if s.state = sInitialized then some { s with pc := upd s.pc t .idle }
      else some { s with pc := upd s.pc t .i0 }
    | .i0 =>
      if s.state = sInitialized then some { s with pc := upd s.pc t .idle }
      else some { s with pc := upd s.pc t .i1 }
    | .i1 =>
      if s.state = sUninit then some { s with state := sInitializing, pc := upd s.pc t .i3 }
      else some { s with pc := upd s.pc t .i2 }
    | .i2 =>
      if s.state = sInitialized then some { s with pc := upd s.pc t .idle }
      else some s
    | .i3 =>
      let g := resolve ncpu s (s.arg t)
      some { s with gattr := g, workers := List.range g.nWorkers.toNat, mainOn := 0,
                    inits := upd s.inits s.epoch (s.inits s.epoch + 1), pc := upd s.pc t .i4 }
    | .i4 => some { s with state := sInitialized, pc := upd s.pc t .idle }
  | .callFini => if s.fin = .idle then some { s with fin := .f0 } else none
  | .finStep =>
    match s.fin with
    | .idle => none
    | .f0 => if s.state = sUninit then some { s with fin := .idle } else some { s with fin := .f1 }
    | .f1 => if s.state = sInitialized then some { s with fin := .f2 } else some s
    | .f2 => some { s with mainOn := 0, fin := .f3 }
    | .f3 => some { s with workers := [], fin := .f4 }
    | .f4 => some { s with state := sUninit, epoch := s.epoch + 1, fin := .idle }
  | .setenv e => some { s with environ := e }
  | .setGlobal n =>
    if s.state = sUninit ∧ n > 0 then
      some { s with gattr := { (resolve ncpu s none) with nWorkers := n } }
    else none
  | .migrate r =>
    if s.state = sInitialized ∧ (s.fin = .idle ∨ s.fin = .f0 ∨ s.fin = .f1) ∧ r ∈ s.workers then
      some { s with mainOn := r }
    else none

/-! ### rank arithmetic of `myth_worker_func.h` -/

/-- `myth_random(min, max)` = `min + (int)(rand_r(..) * ((double)max - min) / (1.0 + RAND_MAX))`
    for a raw value `raw ≤ RAND_MAX = 2^31 - 1` (the product is < 2^53 for every range the
    library uses, so the double computation is exact and the cast is the floor) -/
def mythRandom (min max : Int) (raw : Nat) : Int := min + ((raw : Int) * (max - min)) / 2 ^ 31

/-- `myth_env_get_first_busy` (WS_TARGET_RANDOM): `none` = `NULL` (a single worker), else the
    index into `g_envs`: `idx = myth_random(0, n-1); idx += (idx >= rank);` -/
def victim (n : Int) (rank : Int) (raw : Nat) : Option Int :=
  if n ≤ 1 then none
  else
    let idx := mythRandom 0 (n - 1) raw
    some (idx + (if idx ≥ rank then 1 else 0))

end MythVerif.InitOnce
