import MythVerif.Model.PthProg
/-!
# Determinate pthread programs with monotone gates (C16, layer 4, extension)

`GProg` = the fork-join + lock-protected-commutative fragment `MythVerif.PthProg.Prog` plus the
condition-variable pattern the generated test programs use (`post` / `await` of the description
language, harness/progs/pth_interp.c): a **monotone gate** is a counter that only grows;

* `post g n`  = `lock; gate[g] += n; broadcast; unlock`   — one atomic section;
* `await g n` = `lock; while (gate[g] < n) cond_wait; unlock` — can complete only when
  `gate[g] ≥ n`, otherwise the thread is blocked (it has no step).

The semantics is the same small-step interleaving semantics of the abstract POSIX-level interface as
for `Prog`: any thread that can move may move.  `Proofs/PthGate.lean` proves that whenever such a
program terminates its result (value, counters, gates) is `geval p` — the only other outcome is a
deadlock (every remaining thread blocked at an `await` below its threshold); there is no divergence.
-/
namespace MythVerif.PthGate
open MythVerif.PthProg (Store Store.bump)

/-- fork-join programs over lock-protected commutative counters and monotone gates -/
inductive GProg where
  | ret (v : Int)                    -- finished with value `v` (a literal)
  | add (c : Nat) (k : Int)          -- lock; counter[c] += k; unlock   (value 0)
  | seq (a b : GProg)                -- `a` then `b`; value = sum of both
  | fork (child body : GProg)        -- create a thread for `child`, run `body`, join; value = sum
  | par (child body : GProg)         -- run-time form of `fork`: the child has been created
  | post (g : Nat) (n : Nat)         -- lock; gate[g] += n; broadcast; unlock   (value 0)
  | await (g : Nat) (n : Nat)        -- lock; while (gate[g] < n) cond_wait; unlock   (value 0)
  deriving Repr, DecidableEq

/-- gate values: they only grow -/
abbrev Gates := Nat → Nat

def Gates.bump (γ : Gates) (g : Nat) (n : Nat) : Gates := fun i => if i = g then γ i + n else γ i

/-- a configuration: the term, the counters, the gates -/
abbrev Cfg := GProg × Store × Gates

/-- one step of the abstract interface: any thread that can move may move.  `await g n` has a step
    only when the gate has reached its threshold. -/
inductive Step : Cfg → Cfg → Prop where
  | add (c k σ γ) : Step (.add c k, σ, γ) (.ret 0, σ.bump c k, γ)
  | post (g n σ γ) : Step (.post g n, σ, γ) (.ret 0, σ, γ.bump g n)
  | await (g n σ γ) : n ≤ γ g → Step (.await g n, σ, γ) (.ret 0, σ, γ)
  | seqL (a a' b σ γ σ' γ') : Step (a, σ, γ) (a', σ', γ') → Step (.seq a b, σ, γ) (.seq a' b, σ', γ')
  | seqR (v b b' σ γ σ' γ') : Step (b, σ, γ) (b', σ', γ') → Step (.seq (.ret v) b, σ, γ) (.seq (.ret v) b', σ', γ')
  | seqDone (v w σ γ) : Step (.seq (.ret v) (.ret w), σ, γ) (.ret (v + w), σ, γ)
  | fork (c b σ γ) : Step (.fork c b, σ, γ) (.par c b, σ, γ)
  | parL (c c' b σ γ σ' γ') : Step (c, σ, γ) (c', σ', γ') → Step (.par c b, σ, γ) (.par c' b, σ', γ')
  | parR (c b b' σ γ σ' γ') : Step (b, σ, γ) (b', σ', γ') → Step (.par c b, σ, γ) (.par c b', σ', γ')
  | join (v w σ γ) : Step (.par (.ret v) (.ret w), σ, γ) (.ret (v + w), σ, γ)

/-- reflexive-transitive closure: an execution -/
inductive Steps : Cfg → Cfg → Prop where
  | refl (x) : Steps x x
  | cons (x y z) : Step x y → Steps y z → Steps x z

/-- the value a term returns (awaits and posts contribute nothing) -/
def gval : GProg → Int
  | .ret v => v
  | .add _ _ => 0
  | .post _ _ => 0
  | .await _ _ => 0
  | .seq a b => gval a + gval b
  | .fork c b => gval c + gval b
  | .par c b => gval c + gval b

/-- what a term still adds to counter `i` -/
def gdelta : GProg → Nat → Int
  | .ret _, _ => 0
  | .add c k, i => if i = c then k else 0
  | .post _ _, _ => 0
  | .await _ _, _ => 0
  | .seq a b, i => gdelta a i + gdelta b i
  | .fork c b, i => gdelta c i + gdelta b i
  | .par c b, i => gdelta c i + gdelta b i

/-- what a term still posts to gate `i` -/
def gposts : GProg → Nat → Nat
  | .ret _, _ => 0
  | .add _ _, _ => 0
  | .post g n, i => if i = g then n else 0
  | .await _ _, _ => 0
  | .seq a b, i => gposts a i + gposts b i
  | .fork c b, i => gposts c i + gposts b i
  | .par c b, i => gposts c i + gposts b i

/-- the sequential evaluator: return value, final counters, final gates — the result of every
    terminating execution -/
def geval (p : GProg) (σ : Store) (γ : Gates) : Int × Store × Gates :=
  (gval p, (fun i => σ i + gdelta p i), (fun i => γ i + gposts p i))

/-- number of steps a term still takes -/
def gsize : GProg → Nat
  | .ret _ => 0
  | .add _ _ => 1
  | .post _ _ => 1
  | .await _ _ => 1
  | .seq a b => gsize a + gsize b + 1
  | .fork c b => gsize c + gsize b + 2
  | .par c b => gsize c + gsize b + 1

/-- `Blocked γ p`: `p` is not finished and **every** thread of `p` that is not finished is at an
    `await` whose gate is below its threshold (the thread of a `seq` is where its first unfinished
    component is; a `par` consists of the child's threads and the body's threads, a finished side
    is waiting for the join). -/
inductive Blocked (γ : Gates) : GProg → Prop where
  | await (g n) : γ g < n → Blocked γ (.await g n)
  | seqL (a b) : Blocked γ a → Blocked γ (.seq a b)
  | seqR (v b) : Blocked γ b → Blocked γ (.seq (.ret v) b)
  | parLR (c b) : Blocked γ c → Blocked γ b → Blocked γ (.par c b)
  | parL (c w) : Blocked γ c → Blocked γ (.par c (.ret w))
  | parR (v b) : Blocked γ b → Blocked γ (.par (.ret v) b)

/-- the awaits the threads of a term are currently at: (gate, threshold) -/
def waits : GProg → List (Nat × Nat)
  | .await g n => [(g, n)]
  | .seq (.ret _) b => waits b
  | .seq a _ => waits a
  | .par c b => waits c ++ waits b
  | _ => []

end MythVerif.PthGate
