import MythVerif.Basic.Run
import MythVerif.Basic.Upd
/-!
# The workers' start/stop barrier (`src/myth_internal_barrier.c`)

`myth_internal_barrier_t` is the phase-flipping counting barrier on which the workers (OS threads)
meet when the library starts and when it stops; the object is a static variable, so every
`myth_init` after a `myth_fini` re-initialises the SAME memory (`myth_internal_barrier_init`).

The barrier's critical section runs under a pthread mutex, so one call of
`myth_internal_barrier_wait` is modelled by two atomic steps: `arrive` (lock, increment
`cur[phase]`; the last arriver flips `phase`, zeroes the other counter and broadcasts; everybody
else goes to sleep on the condition variable having recorded `phase`) and `wake` (a sleeper whose
`cur[phase]` has reached `n_threads` returns).  Spurious wake-ups re-test and sleep again: no step.

Ghosts: `gen` (number of completed rounds), `rnd t` (number of waits `t` has returned from),
`arrivedBy k` (who arrived in round `k`, in order).
-/
namespace MythVerif.WBarrier

abbrev Tid := Nat

/-- the fields of the C struct that the barrier logic uses -/
structure Raw where
  n : Nat
  phase : Nat
  cur0 : Nat
  cur1 : Nat
  deriving DecidableEq, Repr

/-- `myth_internal_barrier_init(b, n)`, assignment by assignment:
    `b->n_threads = n; b->phase = 0; b->cur[0] = b->cur[1] = 0;` -/
def barrierInit (_garbage : Raw) (n : Nat) : Raw :=
  let b : Raw := { _garbage with n := n }
  let b : Raw := { b with phase := 0 }
  let b : Raw := { b with cur1 := 0 }
  { b with cur0 := b.cur1 }

inductive PC where
  | idle
  | wait (ph : Nat)
  deriving DecidableEq, Repr

structure St where
  n : Nat
  phase : Nat
  cur : Nat → Nat
  pc : Tid → PC
  parts : List Tid                  -- the participants (the workers)
  gen : Nat                         -- ghost: completed rounds
  rnd : Tid → Nat                   -- ghost: completed waits per thread
  arrivedBy : Nat → List Tid        -- ghost: arrivals per round

inductive Lbl where
  | arrive (t : Tid)
  | wake (t : Tid)
  deriving DecidableEq, Repr

/-- the state right after `myth_internal_barrier_init(b, parts.length)` -/
def init (parts : List Tid) : St :=
  { n := parts.length, phase := 0, cur := fun _ => 0, pc := fun _ => .idle, parts := parts,
    gen := 0, rnd := fun _ => 0, arrivedBy := fun _ => [] }

def step (s : St) : Lbl → Option St
  | .arrive t =>
    if s.pc t = .idle ∧ t ∈ s.parts then
      let ph := s.phase
      let c := s.cur ph + 1
      if c < s.n then
        some { s with cur := upd s.cur ph c, pc := upd s.pc t (.wait ph),
                      arrivedBy := upd s.arrivedBy s.gen (s.arrivedBy s.gen ++ [t]) }
      else
        -- b->phase = 1 - phase; b->cur[b->phase] = 0; broadcast; return
        some { s with cur := upd (upd s.cur ph c) (1 - ph) 0, phase := 1 - ph,
                      rnd := upd s.rnd t (s.rnd t + 1), gen := s.gen + 1,
                      arrivedBy := upd s.arrivedBy s.gen (s.arrivedBy s.gen ++ [t]) }
    else none
  | .wake t =>
    match s.pc t with
    | .wait ph => if s.cur ph = s.n then some { s with pc := upd s.pc t .idle, rnd := upd s.rnd t (s.rnd t + 1) } else none
    | .idle => none

end MythVerif.WBarrier
