import MythVerif.Basic.Upd
/-!
Ownership ledger of descriptor / stack blocks (`get_new_myth_thread_struct_*`,
`free_myth_thread_struct_*` with the per-worker free lists of `myth_sched_func.h` /
`myth_misc_func.h`).  A block is obtained from the caller's free list if it is non-empty and
from the OS (`mmap`, modelled as a supply of fresh addresses — trusted base) otherwise; a
release pushes it on the releasing worker's list.
-/
namespace MythVerif.Ledger

abbrev Addr := Nat
abbrev Worker := Nat

structure St where
  owned : List Addr                 -- blocks currently in use by a thread
  fl : Worker → List Addr           -- per-worker free lists (LIFO)
  fresh : Nat                       -- blocks obtained from the OS so far
  next : Addr                       -- OS model: addresses `≥ next` have never been handed out
  peak : Nat                        -- ghost: maximum of `owned.length` so far

def init : St := { owned := [], fl := fun _ => [], fresh := 0, next := 0, peak := 0 }

inductive Op where
  | get (w : Worker)
  | free (w : Worker) (a : Addr)
  deriving Repr

/-- returns the new state and, for `get`, the block handed out; `none` = illegal (a release of
    a block that is not owned, i.e. a double or wild release) -/
def step (s : St) : Op → Option (St × Option Addr)
  | .get w =>
      match s.fl w with
      | a :: rest =>
          let owned := a :: s.owned
          some ({ s with owned := owned, fl := upd s.fl w rest, peak := max s.peak owned.length }, some a)
      | [] =>
          let a := s.next
          let owned := a :: s.owned
          some ({ s with owned := owned, fresh := s.fresh + 1, next := s.next + 1,
                         peak := max s.peak owned.length }, some a)
  | .free w a =>
      if a ∈ s.owned then some ({ s with owned := s.owned.erase a, fl := upd s.fl w (a :: s.fl w) }, none)
      else none

def runOps (s : St) : List Op → Option St
  | [] => some s
  | op :: ops => match step s op with
    | some (s', _) => runOps s' ops
    | none => none

end MythVerif.Ledger
