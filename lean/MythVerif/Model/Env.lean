import MythVerif.Generated.Consts
/-!
Model of the configuration readers of `src/myth_init_func.h`
(`myth_globalattr_default_stacksize / _guardsize / _num_workers / _bind_workers / _child_first`)
together with the libc function they all go through, `atoi`.

A C string is a `List Char` (the bytes before the terminating NUL; a byte is a `Char` with code
< 256, the definitions are total on every `Char`).  C integer types are modelled by their value
ranges: `int` = `Int` reduced by `wrap32`, `size_t` = `Nat` reduced modulo 2^64 (`toSizeT`).

`atoi` is glibc's: `(int) strtol(s, NULL, 10)` -- skip white space, optional sign, decimal digits,
the `long` result saturates at `LONG_MIN/LONG_MAX`, the cast keeps the low 32 bits (ISO C leaves
the out-of-range case undefined; this is what the library under test links against and what the
unit harness observes).
-/
namespace MythVerif.Env

abbrev CStr := List Char

/-- `isspace` in the C locale: space, \t \n \v \f \r -/
def isSpace (c : Char) : Bool := c.toNat == 32 || (9 ≤ c.toNat && c.toNat ≤ 13)
/-- `isdigit` -/
def isDigit (c : Char) : Bool := 48 ≤ c.toNat && c.toNat ≤ 57
def digitVal (c : Char) : Nat := c.toNat - 48

/-- value of the maximal digit prefix, accumulated on `acc` (unbounded) -/
def digitsVal : CStr → Nat → Nat
  | [], acc => acc
  | c :: cs, acc => if isDigit c then digitsVal cs (acc * 10 + digitVal c) else acc

def skipSpace : CStr → CStr
  | [] => []
  | c :: cs => if isSpace c then skipSpace cs else c :: cs

def longMax : Int := 2 ^ 63 - 1
def longMin : Int := -(2 ^ 63)

/-- the sign and the digit string `strtol` looks at -/
def signAndDigits (s : CStr) : Bool × CStr :=
  match skipSpace s with
  | [] => (false, [])
  | c :: r => if c = '-' then (true, r) else if c = '+' then (false, r) else (false, c :: r)

/-- glibc `strtol(s, NULL, 10)` -/
def strtol (s : CStr) : Int :=
  let (neg, ds) := signAndDigits s
  let v : Int := digitsVal ds 0
  if neg then (if -v < longMin then longMin else -v) else (if v > longMax then longMax else v)

/-- conversion to `int` (two's complement, low 32 bits) -/
def wrap32 (x : Int) : Int := (x + 2 ^ 31) % 2 ^ 32 - 2 ^ 31
/-- conversion of an `int`/`long` to `size_t` -/
def toSizeT (x : Int) : Nat := (x % 2 ^ 64).toNat

def atoi (s : CStr) : Int := wrap32 (strtol s)

/-! ### the readers.  `env : Option CStr` is the result of `getenv` (`none` = unset) -/

def defStack : Nat := Gen.defStackSize
def defGuard : Nat := Gen.defGuardSize
/-- `MYTH_DEFAULT_BIND_WORKERS`, `MYTH_CHILD_FIRST` of `config.h` (the unit harness prints the
    compiled-in values on its first line and the check compares them with these) -/
def defBind : Int := 1
def defChildFirst : Int := 1

/-- `myth_globalattr_default_stacksize` of the pinned snapshot:
    `size_t sz = 0; if (env) sz = atoi(env); if (sz <= 0) sz = MYTH_DEF_STACK_SIZE;` -/
def stacksizePinned (env : Option CStr) : Nat :=
  let sz : Nat := match env with
    | some s => toSizeT (atoi s)
    | none => 0
  if sz ≤ 0 then defStack else sz

/-- `myth_globalattr_default_stacksize` of the current source:
    `size_t sz = 0; if (env) { int x = atoi(env); if (x > 0) sz = x; } if (sz <= 0) sz = DEF;` -/
def stacksize (env : Option CStr) : Nat :=
  let sz : Nat := match env with
    | some s => let x := atoi s; if x > 0 then toSizeT x else 0
    | none => 0
  if sz ≤ 0 then defStack else sz

/-- `myth_globalattr_default_guardsize` (same shape as the pinned stack-size reader; the value
    is stored in the attribute but not used to size any mapping) -/
def guardsize (env : Option CStr) : Nat :=
  let sz : Nat := match env with
    | some s => toSizeT (atoi s)
    | none => 0
  if sz ≤ 0 then defGuard else sz

/-- `myth_globalattr_default_num_workers`: `MYTH_NUM_WORKERS`, else the superseded
    `MYTH_WORKER_NUM` (with a warning), `int nw`; `if (nw <= 0) nw = myth_get_n_available_cpus()`.
    Returns the worker count and whether the "will be superceded" diagnostic is printed. -/
def numWorkers (nwEnv oldEnv : Option CStr) (ncpu : Int) : Int × Bool :=
  let r : Int × Bool := match nwEnv with
    | some s => (atoi s, false)
    | none => match oldEnv with
      | some s => (atoi s, true)
      | none => (0, false)
  (if r.1 ≤ 0 then ncpu else r.1, r.2)

/-- `myth_globalattr_default_bind_workers` (`int bw = default; if (env) bw = atoi(env)`) -/
def bindWorkers (env : Option CStr) : Int :=
  match env with
  | some s => atoi s
  | none => defBind

/-- `myth_globalattr_default_child_first` -/
def childFirst (env : Option CStr) : Int :=
  match env with
  | some s => atoi s
  | none => defChildFirst

/-- `if (g_attr.bind_workers > 0) myth_bind_worker(rank)` in `myth_worker_thread_fn` -/
def bindingOn (env : Option CStr) : Bool := decide (bindWorkers env > 0)

/-- the four environment strings a default global attribute is computed from -/
structure Environ where
  stk : Option CStr := none
  guard : Option CStr := none
  nw : Option CStr := none
  oldNw : Option CStr := none
  bind : Option CStr := none
  childFirst : Option CStr := none

/-- `myth_globalattr_t` -/
structure GAttr where
  stacksize : Nat
  guardsize : Nat
  nWorkers : Int
  bindWorkers : Int
  childFirst : Int
  initialized : Bool
  deriving Repr, DecidableEq

/-- `myth_globalattr_init_body` -/
def gattrDefault (e : Environ) (ncpu : Int) : GAttr :=
  { stacksize := stacksize e.stk, guardsize := guardsize e.guard,
    nWorkers := (numWorkers e.nw e.oldNw ncpu).1, bindWorkers := bindWorkers e.bind,
    childFirst := childFirst e.childFirst, initialized := true }

end MythVerif.Env
