/-!
# Mini x86-64 semantics for the context-switch templates (C03)

Exactly the instruction forms that `translate/asm_extract.py` accepts from the amd64 inline-asm
branch of `src/myth_context_func.h`; the instruction lists themselves are in
`Generated/CtxAsm.lean` (rewritten from the source on every run).

Modelling decisions (see also the header of `Properties/C03.lean`):
* registers are the sixteen 64-bit GPRs plus `opnd n` ("whatever distinct register GCC picks for
  operand n" – only used if a constraint does not pin a register; the current source pins all);
* values and addresses are unbounded integers (no 2^64 wrap-around: a stack pointer within 200
  bytes of address 0 is not modelled);
* memory is a map from byte addresses to 8-byte words; every access of the templates is an
  8-byte access at `rsp + 8k` or at a context word, so two accesses either coincide or are
  disjoint provided `rsp` and the context addresses are 8-aligned (hypotheses of the theorems
  are stated with byte-accurate ranges: a word at `a` occupies `[a, a+8)`);
* `call` pushes a return address and runs an opaque callee `Env.callee`, about which the
  theorems assume only the SysV contract `ObeysSysV`;
* `jmp *r` records its target in `pc`; instruction lists are straight-line, the three halves of a
  swap template are separate lists, tied together by `pc = label`.
-/
namespace MythVerif.X86

inductive Reg where
  | rax | rcx | rdx | rbx | rsp | rbp | rsi | rdi
  | r8 | r9 | r10 | r11 | r12 | r13 | r14 | r15
  | opnd (n : Nat)
  deriving DecidableEq, Repr

/-- all general purpose registers -/
def gprs : List Reg :=
  [.rax, .rcx, .rdx, .rbx, .rsp, .rbp, .rsi, .rdi, .r8, .r9, .r10, .r11, .r12, .r13, .r14, .r15]

/-- registers a SysV callee must preserve (besides rsp) -/
def calleeSaved : List Reg := [.rbx, .rbp, .r12, .r13, .r14, .r15]

inductive Instr where
  | subRsp (n : Nat)              -- sub $n,%rsp
  | addRsp (n : Nat)              -- add $n,%rsp
  | push (r : Reg)                -- push %r
  | pop (r : Reg)                 -- pop %r
  | leaLabel (r : Reg) (l : Nat)  -- lea l f(%rip),%r
  | storeRsp (r : Reg)            -- mov %rsp,(%r)
  | loadRsp (r : Reg)             -- mov (%r),%rsp
  | call                          -- call <callback symbol>
  | callReg (r : Reg)             -- call *%r
  | jmpReg (r : Reg)              -- jmp *%r
  deriving DecidableEq, Repr

structure M where
  reg : Reg → Int
  mem : Int → Int
  /-- target of the last indirect jump taken -/
  pc : Int

/-- what the surrounding program supplies: addresses of the local labels of the asm statement
    being executed, the return address `call` pushes, the callee -/
structure Env where
  label : Nat → Int
  retAddr : Int
  callee : M → M

def setReg (m : M) (r : Reg) (v : Int) : M := { m with reg := fun q => if q = r then v else m.reg q }
def setMem (m : M) (a : Int) (v : Int) : M := { m with mem := fun b => if b = a then v else m.mem b }
def setPc (m : M) (v : Int) : M := { m with pc := v }

/-- state in which the callee starts: return address pushed -/
def callEntry (env : Env) (m : M) : M :=
  let sp := m.reg .rsp - 8
  setReg (setMem m sp env.retAddr) .rsp sp

def exec1 (env : Env) (m : M) : Instr → M
  | .subRsp n => setReg m .rsp (m.reg .rsp - n)
  | .addRsp n => setReg m .rsp (m.reg .rsp + n)
  | .push r => let sp := m.reg .rsp - 8; setReg (setMem m sp (m.reg r)) .rsp sp
  | .pop r => let sp := m.reg .rsp; setReg (setReg m r (m.mem sp)) .rsp (sp + 8)
  | .leaLabel r l => setReg m r (env.label l)
  | .storeRsp r => setMem m (m.reg r) (m.reg .rsp)
  | .loadRsp r => setReg m .rsp (m.mem (m.reg r))
  | .call => env.callee (callEntry env m)
  | .callReg _ => env.callee (callEntry env m)
  | .jmpReg r => setPc m (m.reg r)

def exec (env : Env) (m : M) (is : List Instr) : M := is.foldl (exec1 env) m

/-- The SysV contract of a callee that runs on the stack `[lo, entry rsp)`: callee-saved
    registers and rsp (after its `ret`) are preserved; the only memory it changes is its own
    frame below the entry rsp (the return-address slot and everything above stay intact) and the
    locations `W` it was explicitly given (objects reachable through its arguments). -/
structure ObeysSysV (f : M → M) (lo : Int) (W : Int → Prop) : Prop where
  regs : ∀ m r, r ∈ calleeSaved → (f m).reg r = m.reg r
  ret : ∀ m, (f m).reg .rsp = m.reg .rsp + 8
  frame : ∀ m a, (f m).mem a ≠ m.mem a → (lo ≤ a ∧ a < m.reg .rsp) ∨ W a

/-- static stack effect of a straight-line list -/
def rspDelta : List Instr → Int
  | [] => 0
  | .subRsp n :: is => rspDelta is - n
  | .addRsp n :: is => rspDelta is + n
  | .push _ :: is => rspDelta is - 8
  | .pop _ :: is => rspDelta is + 8
  | _ :: is => rspDelta is

/-- bytes the save half takes from the stack -/
def frameBytes (save : List Instr) : Int := - rspDelta save

def pushed : List Instr → List Reg
  | [] => []
  | .push r :: is => r :: pushed is
  | _ :: is => pushed is

def popped : List Instr → List Reg
  | [] => []
  | .pop r :: is => r :: popped is
  | _ :: is => popped is

/-- instructions before / after the (first) call of a list -/
def beforeCall (is : List Instr) : List Instr := is.takeWhile (fun i => i != .call)
def afterCall (is : List Instr) : List Instr := (is.dropWhile (fun i => i != .call)).drop 1

/-- `myth_make_context_*`:  `((stack - sub) / align) * align` (i.e. `(stack - sub) & ~(align-1)`) -/
def mkCtxRsp (sub align stack : Nat) : Nat := (stack - sub) / align * align

end MythVerif.X86
