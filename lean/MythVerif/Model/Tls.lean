import MythVerif.Basic.Upd
import MythVerif.Generated.Consts
/-!
Model of `src/myth_tls_func.h`: the per-thread sparse radix tree (get / set / destructor walk /
teardown walk) and the sequential key allocator.  Geometry comes from the translator
(`Generated/Consts.lean`, re-derived from `myth_tls.h` on every run).

C pointers become an inductive tree whose children / entries are functions of the index;
`NULL` is `none` (children) or `0` (values).
-/
namespace MythVerif.Tls

abbrev Val := Nat          -- 0 is NULL

/-- tree geometry: a node has `2^logC` children, a leaf `2^logL` entries, `depth` internal levels -/
structure Geo where
  logC : Nat
  logL : Nat
  depth : Nat
  deriving Repr, DecidableEq

def Geo.nC (g : Geo) : Nat := 2 ^ g.logC
def Geo.nL (g : Geo) : Nat := 2 ^ g.logL
/-- number of keys below a node that has `d` internal levels beneath it (`d = 0`: a leaf) -/
def Geo.span (g : Geo) (d : Nat) : Nat := g.nL * g.nC ^ d
def Geo.nKeys (g : Geo) : Nat := g.span g.depth

/-- the geometry compiled into the library -/
def geo : Geo := { logC := Gen.tlsLogChildren, logL := Gen.tlsLogLeaf, depth := Gen.tlsDepth }

inductive Node where
  | leaf (e : Nat → Val)
  | inner (c : Nat → Option Node)

/-- child index used at a node with `d+1` levels beneath it: `(idx >> shift) & (nC-1)` with
    `shift = d*logC + logL`, written with `/` and `%` (`C10_cidx_bits` relates the two) -/
def cidx (g : Geo) (d : Nat) (idx : Nat) : Nat := idx / g.span d % g.nC
def lidx (g : Geo) (idx : Nat) : Nat := idx % g.nL

/-- `myth_tls_tree_get` below the range check: `d` = internal levels still to descend -/
def getRec (g : Geo) : Nat → Node → Nat → Val
  | 0, .leaf e, idx => e (lidx g idx)
  | d + 1, .inner c, idx =>
      match c (cidx g d idx) with
      | none => 0
      | some n => getRec g d n idx
  | _, _, _ => 0            -- node of the wrong kind: `assert(n->type == …)` in the C code

/-- freshly allocated node for a position with `d` levels beneath it, all children / values 0 -/
def fresh : Nat → Node
  | 0 => .leaf (fun _ => 0)
  | _ + 1 => .inner (fun _ => none)

/-- `myth_tls_tree_set` below the range check, allocating the missing path -/
def setRec (g : Geo) : Nat → Node → Nat → Val → Node
  | 0, .leaf e, idx, v => .leaf (upd e (lidx g idx) v)
  | d + 1, .inner c, idx, v =>
      let i := cidx g d idx
      let child := match c i with
        | none => fresh d
        | some n => n
      .inner (upd c i (some (setRec g d child idx v)))
  | _, n, _, _ => n

/-- the tree of one thread: `root = NULL` or a node -/
abbrev Tree := Option Node

def get (g : Geo) (t : Tree) (idx : Int) : Val :=
  if idx < 0 ∨ idx ≥ g.nKeys then 0
  else match t with
    | none => 0
    | some n => getRec g g.depth n idx.toNat

/-- returns the new tree and the return code (0 or EINVAL = 22) -/
def set (g : Geo) (t : Tree) (idx : Int) (v : Val) : Tree × Nat :=
  if idx < 0 ∨ idx ≥ g.nKeys then (t, 22)
  else
    let n := match t with
      | none => fresh g.depth
      | some n => n
    (some (setRec g g.depth n idx.toNat v), 0)

/-- well-typed: internal nodes above, leaves exactly at depth `d` below -/
def WT : Nat → Node → Prop
  | 0, .leaf _ => True
  | d + 1, .inner c => ∀ i, match c i with | none => True | some n => WT d n
  | _, _ => False

/-- is the leaf holding key `idx` allocated? -/
def matRec (g : Geo) : Nat → Node → Nat → Bool
  | 0, .leaf _, _ => true
  | d + 1, .inner c, idx =>
      match c (cidx g d idx) with
      | none => false
      | some n => matRec g d n idx
  | _, _, _ => false

/-- number of nodes allocated under `n`, children indices `< nC` only -/
def countFrom (f : Nat → Nat) : Nat → Nat → Nat
  | _, 0 => 0
  | i, fuel + 1 => f i + countFrom f (i + 1) fuel

def nodeCount (g : Geo) : Nat → Node → Nat
  | 0, .leaf _ => 1
  | d + 1, .inner c =>
      countFrom (fun i => match c i with | none => 0 | some n => nodeCount g d n) 0 g.nC + 1
  | _, _ => 1

/-! ### destructor walk and teardown walk -/

/-- what the walks do, in order -/
inductive Ev where
  | call (key : Nat) (v : Val)     -- `destructor(val)` for table cell `key`
  | oob (key : Nat)                -- read of `ka->keys[key]` with `key ≥ nKeys` (outside the table)
  | free                           -- `myth_tls_tree_node_free`
  deriving DecidableEq, Repr

/-- the two statements the walks differ in between the pinned and the repaired source -/
structure Walk where
  brk : Bool            -- `if (!c) break;`  (pinned)  vs  `continue`
  parentStride : Bool   -- `c_base += stride` (pinned) vs `c_base += c_stride`
  deriving DecidableEq, Repr

def pinnedWalk : Walk := { brk := true, parentStride := true }
def fixedWalk : Walk := { brk := false, parentStride := false }

/-- key table: destructor id of each cell (`none` = NULL).  Cells `≥ nKeys` do not exist. -/
abbrev Dtors := Nat → Option Nat

/-- leaf loop of `myth_tls_call_destructors_rec`: `i` from `from` while `fuel` lasts -/
def leafLoop (g : Geo) (dt : Dtors) (e : Nat → Val) (base : Nat) : Nat → Nat → List Ev
  | _, 0 => []
  | i, fuel + 1 =>
      let k := base + i
      (if k ≥ g.nKeys then [Ev.oob k]
       else match dt k with
         | some _ => [Ev.call k (e i)]
         | none => []) ++ leafLoop g dt e base (i + 1) fuel

/-- the `for (i = 0; i < n_children; i++)` loop shared by both walks; `body i cBase` is `none`
    when child `i` is NULL, else what the recursive call does -/
def childLoop (w : Walk) (body : Nat → Nat → Option (List Ev)) (cStride stride : Nat) :
    Nat → Nat → Nat → List Ev
  | _, _, 0 => []
  | cBase, i, fuel + 1 =>
      let next := cBase + (if w.parentStride then stride else cStride)
      match body i cBase with
      | none => if w.brk then [] else childLoop w body cStride stride next (i + 1) fuel
      | some evs => evs ++ childLoop w body cStride stride next (i + 1) fuel

/-- `myth_tls_call_destructors_rec(n, depth, base, stride, ka)`; `d` = levels beneath `n` -/
def callRec (g : Geo) (w : Walk) (dt : Dtors) : Nat → Node → Nat → Nat → List Ev
  | 0, .leaf e, base, _ => leafLoop g dt e base 0 g.nL
  | d + 1, .inner c, base, stride =>
      childLoop w (fun i cb => match c i with
          | none => none
          | some n => some (callRec g w dt d n cb (stride / g.nC)))
        (stride / g.nC) stride base 0 g.nC
  | _, _, _, _ => []

/-- `myth_tls_tree_destroy_rec`: frees the children it visits, then the node itself -/
def destroyRec (g : Geo) (w : Walk) : Nat → Node → Nat → Nat → List Ev
  | 0, .leaf _, _, _ => [Ev.free]
  | d + 1, .inner c, base, stride =>
      childLoop w (fun i cb => match c i with
          | none => none
          | some n => some (destroyRec g w d n cb (stride / g.nC)))
        (stride / g.nC) stride base 0 g.nC ++ [Ev.free]
  | _, _, _, _ => [Ev.free]

/-- `myth_tls_tree_fini`: destructor calls, then teardown -/
def fini (g : Geo) (w : Walk) (dt : Dtors) (t : Tree) : List Ev :=
  match t with
  | none => []
  | some n => callRec g w dt g.depth n 0 g.nKeys ++ destroyRec g w g.depth n 0 g.nKeys

/-! ### sequential key allocator (`myth_tls_key_allocator_*`) -/

structure Keys where
  free : List Nat              -- the free list, head first
  live : Nat → Bool            -- `next == -1`
  dtor : Dtors                 -- `destructor` field (cleared by dealloc)

def Keys.init (n : Nat) : Keys := { free := List.range n, live := fun _ => false, dtor := fun _ => none }

/-- returns key or -1 -/
def Keys.alloc (s : Keys) (d : Option Nat) : Keys × Int :=
  match s.free with
  | [] => (s, -1)
  | k :: rest => ({ free := rest, live := upd s.live k true, dtor := upd s.dtor k d }, k)

/-- returns 0 or EINVAL -/
def Keys.dealloc (g : Geo) (s : Keys) (key : Int) : Keys × Nat :=
  if key < 0 ∨ key ≥ g.nKeys then (s, 22)
  else if s.live key.toNat = false then (s, 22)
  else ({ free := key.toNat :: s.free, live := upd s.live key.toNat false, dtor := upd s.dtor key.toNat none }, 0)

end MythVerif.Tls
