/-!
# Determinate pthread programs (C16, layer 4)

Two languages:

* `Prog` — the **fork-join + lock-protected-commutative fragment** as a term language with a
  small-step interleaving semantics of the abstract POSIX-level interface (`fork` = the child runs
  concurrently with the rest of the parent's body until the join; a lock-protected update is one
  atomic section) and the sequential evaluator `eval`.  `Proofs/PthProg.lean` proves that every
  complete execution yields `eval p` (`C16_eval_determinate`).

* `Flat` — the description language of the generated test programs (one line per thread, one token
  per operation; harness/progs/pth_interp.c interprets exactly this text against the pthread API)
  with the evaluator `Flat.eval`: an abstract machine over the same abstract interface run under
  ONE fixed schedule (lowest-numbered enabled thread first).  It covers the whole supported subset:
  spawn trees with joins / return values / `pthread_exit`, attribute objects, detached threads,
  lock-protected counters (mutexes of every initialisation kind incl. static initialisers, trylock
  loops, spin locks), condition-variable gates and bounded buffers, barrier phases, once, keys with
  destructors (POSIX rules: called for non-NULL values only, value cleared first, repeated while a
  destructor stores a new value, a re-created key reads NULL everywhere), yield / sleeps,
  `pthread_self` / `pthread_equal`.  For these constructs determinacy of the *generated* programs
  is by construction of the generator (check/props/c16.py), not a theorem.
-/
namespace MythVerif.PthProg

/-! ## the proved fragment -/

/-- fork-join programs over lock-protected commutative counters.  Every term evaluates to a value
    (the thread's return value / accumulator) and changes the shared counters. -/
inductive Prog where
  | ret (v : Int)                    -- finished with value `v` (a literal)
  | add (c : Nat) (k : Int)          -- lock; counter[c] += k; unlock   (value 0)
  | seq (a b : Prog)                 -- `a` then `b`; value = sum of both
  | fork (child body : Prog)         -- create a thread for `child`, run `body`, join; value = sum
  | par (child body : Prog)          -- run-time form of `fork`: the child has been created
  deriving Repr, DecidableEq

abbrev Store := Nat → Int

def Store.bump (σ : Store) (c : Nat) (k : Int) : Store := fun i => if i = c then σ i + k else σ i

/-- one step of the abstract interface: any thread that can move may move -/
inductive Step : Prog × Store → Prog × Store → Prop where
  | add (c k σ) : Step (.add c k, σ) (.ret 0, σ.bump c k)
  | seqL (a a' b σ σ') : Step (a, σ) (a', σ') → Step (.seq a b, σ) (.seq a' b, σ')
  | seqR (v b b' σ σ') : Step (b, σ) (b', σ') → Step (.seq (.ret v) b, σ) (.seq (.ret v) b', σ')
  | seqDone (v w σ) : Step (.seq (.ret v) (.ret w), σ) (.ret (v + w), σ)
  | fork (c b σ) : Step (.fork c b, σ) (.par c b, σ)
  | parL (c c' b σ σ') : Step (c, σ) (c', σ') → Step (.par c b, σ) (.par c' b, σ')
  | parR (c b b' σ σ') : Step (b, σ) (b', σ') → Step (.par c b, σ) (.par c b', σ')
  | join (v w σ) : Step (.par (.ret v) (.ret w), σ) (.ret (v + w), σ)

/-- reflexive-transitive closure: an execution -/
inductive Steps : Prog × Store → Prog × Store → Prop where
  | refl (x) : Steps x x
  | cons (x y z) : Step x y → Steps y z → Steps x z

/-- the value a term returns -/
def val : Prog → Int
  | .ret v => v
  | .add _ _ => 0
  | .seq a b => val a + val b
  | .fork c b => val c + val b
  | .par c b => val c + val b

/-- what a term still adds to counter `i` -/
def delta : Prog → Nat → Int
  | .ret _, _ => 0
  | .add c k, i => if i = c then k else 0
  | .seq a b, i => delta a i + delta b i
  | .fork c b, i => delta c i + delta b i
  | .par c b, i => delta c i + delta b i

/-- the sequential evaluator: return value and final counters -/
def eval (p : Prog) (σ : Store) : Int × Store := (val p, fun i => σ i + delta p i)

/-- number of steps a term still takes -/
def size : Prog → Nat
  | .ret _ => 0
  | .add _ _ => 1
  | .seq a b => size a + size b + 1
  | .fork c b => size c + size b + 2
  | .par c b => size c + size b + 1

/-- counters mentioned by a term (for printing a finite part of the store) -/
def maxCounter : Prog → Nat
  | .ret _ => 0
  | .add c _ => c + 1
  | .seq a b | .fork a b | .par a b => max (maxCounter a) (maxCounter b)

/-! ## the description language of the generated programs -/

namespace Flat

inductive Op where
  | lit (k : Int)                      -- acc += k
  | add (c : Nat) (k : Int)            -- lock(lockOf c); counter[c] += k; unlock
  | tadd (c : Nat) (k : Int)           -- the same with a trylock loop
  | rd (c : Nat)                       -- acc += counter[c] (under its lock)
  | spawn (t m : Nat)                  -- create thread t (m = how: NULL attr, attr objects, detached …)
  | join (t : Nat)                     -- acc += return value of t
  | joinn (t : Nat)                    -- join with a NULL result pointer
  | detach (t : Nat)                   -- pthread_detach(t)
  | sdetach                            -- pthread_detach(pthread_self())
  | post (g : Nat) (k : Int) (m : Nat) -- lock; gate[g] += k; signal (m=0) / broadcast (m=1); unlock
  | await (g : Nat) (v : Int)          -- lock; while (gate[g] < v) cond_wait; unlock
  | put (q : Nat) (v : Int)            -- bounded buffer
  | get (q c : Nat)                    -- counter[c] += value taken
  | bar (b : Nat)                      -- barrier wait; the serial thread bumps the barrier's counter
  | once (o : Nat)                     -- pthread_once; acc += times the routine has run (must be 1)
  | kcreate (k d : Nat)                -- key slot k, destructor kind d (0 none, 1 sum, 2 re-store v-1)
  | kdelete (k : Nat)
  | kset (k : Nat) (v : Int)
  | kget (k : Nat)                     -- acc += value
  | yield | nsleep (us : Nat) | usleep (us : Nat) | sleep0
  | self                               -- acc += pthread_equal(self, self)
  | chk (t : Nat)                      -- after join t: acc += 2*equal(id, its self) + not equal(id, my self)
  | fin (n : Nat)                      -- main_exit family: the n-th caller prints the result
  | nsleepbad                          -- acc += 1 iff nanosleep({0, 2e9}) = -1 with errno EINVAL
  | kmax                               -- acc += 1 iff creating keys until failure ends with EAGAIN
  deriving Repr

structure Thread where
  ops : List Op := []
  exitMode : Nat := 0
  acc : Int := 0
  started : Bool := false
  finished : Bool := false
  ret : Int := 0
  barWait : Option (Nat × Nat) := none
  vals : List (Nat × Int) := []
  deriving Repr, Inhabited

structure Bar where
  count : Nat := 1
  counter : Nat := 0
  arrived : Nat := 0
  gen : Nat := 0
  deriving Repr, Inhabited

structure OnceCtl where
  counter : Nat := 0
  k : Int := 0
  runs : Int := 0
  deriving Repr, Inhabited

structure KeySlot where
  live : Bool := false
  dtor : Nat := 0
  deriving Repr, Inhabited

structure Machine where
  th : Array Thread := #[]
  cnt : Array Int := #[]
  gate : Array Int := #[]
  qcap : Array Nat := #[]
  q : Array (List Int) := #[]
  bar : Array Bar := #[]
  once : Array OnceCtl := #[]
  keys : Array KeySlot := #[]
  dcalls : Int := 0
  dnull : Int := 0
  dsum : Int := 0
  fins : Nat := 0
  mainAcc : Int := 0
  errs : List String := []
  deriving Repr, Inhabited

def getVal (vals : List (Nat × Int)) (k : Nat) : Int :=
  match vals.find? (·.1 == k) with
  | some p => p.2
  | none => 0

def setVal (vals : List (Nat × Int)) (k : Nat) (v : Int) : List (Nat × Int) :=
  (k, v) :: vals.filter (·.1 != k)

/-- POSIX thread exit: for every live key with a destructor and a non-NULL value, clear the value
    and call the destructor; repeat while destructors stored new values (at most 4 rounds =
    PTHREAD_DESTRUCTOR_ITERATIONS).  Destructor kind 1: dcalls++, dsum += v.  Kind 2: the same and
    stores v-1 again while v > 1. -/
def runDtors (m : Machine) (vals : List (Nat × Int)) : Machine × List (Nat × Int) := Id.run do
  let mut m := m
  let mut vals := vals
  for _ in [0:4] do
    let mut again := false
    for k in [0:m.keys.size] do
      let ks := m.keys[k]!
      let v := getVal vals k
      if ks.live && ks.dtor != 0 && v != 0 then
        vals := setVal vals k 0
        m := { m with dcalls := m.dcalls + 1, dsum := m.dsum + v }
        if ks.dtor == 2 && v > 1 then
          vals := setVal vals k (v - 1)
          again := true
    if !again then break
  return (m, vals)

def bump (a : Array Int) (c : Nat) (k : Int) : Array Int := a.modify c (· + k)

/-- is the next operation of thread `i` enabled? -/
def enabled (m : Machine) (i : Nat) : Bool :=
  let t := m.th[i]!
  if !t.started || t.finished then false else
  match t.ops with
  | [] => true
  | op :: _ =>
    match op with
    | .join u | .joinn u => (m.th[u]!).finished
    | .await g v => decide (m.gate[g]! ≥ v)
    | .put q _ => decide ((m.q[q]!).length < m.qcap[q]!)
    | .get q _ => !(m.q[q]!).isEmpty
    | .bar b =>
      match t.barWait with
      | some (_, g) => decide ((m.bar[b]!).gen > g)
      | none => true
    | _ => true

def setTh (m : Machine) (i : Nat) (f : Thread → Thread) : Machine := { m with th := m.th.modify i f }

/-- execute the next operation of thread `i` (which is enabled) -/
def exec (m : Machine) (i : Nat) : Machine :=
  let t := m.th[i]!
  match t.ops with
  | [] =>
    -- the start routine returns / calls pthread_exit: destructors, then the thread is joinable
    let (m1, vals) := runDtors m t.vals
    let m1 := if i == 0 then { m1 with mainAcc := t.acc } else m1
    setTh m1 i (fun t => { t with finished := true, ret := t.acc, vals := vals })
  | op :: rest =>
    let pop (m : Machine) : Machine := setTh m i (fun t => { t with ops := rest })
    let accAdd (m : Machine) (k : Int) : Machine := setTh m i (fun t => { t with acc := t.acc + k })
    match op with
    | .lit k => accAdd (pop m) k
    | .add c k | .tadd c k => pop { m with cnt := bump m.cnt c k }
    | .rd c => accAdd (pop m) (m.cnt[c]!)
    | .spawn u _ => setTh (pop m) u (fun t => { t with started := true })
    | .join u => accAdd (pop m) ((m.th[u]!).ret)
    | .joinn _ => pop m
    | .detach _ | .sdetach => pop m
    | .post g k _ => pop { m with gate := bump m.gate g k }
    | .await _ _ => pop m
    | .put q v => pop { m with q := m.q.modify q (· ++ [v]) }
    | .get q c =>
      match m.q[q]! with
      | v :: vs => pop { m with q := m.q.set! q vs, cnt := bump m.cnt c v }
      | [] => pop m
    | .bar b =>
      match t.barWait with
      | some _ => setTh (pop m) i (fun t => { t with barWait := none })
      | none =>
        let br := m.bar[b]!
        if br.arrived + 1 == br.count then
          pop { m with bar := m.bar.set! b { br with arrived := 0, gen := br.gen + 1 },
                       cnt := bump m.cnt br.counter 1 }
        else
          setTh { m with bar := m.bar.set! b { br with arrived := br.arrived + 1 } } i
            (fun t => { t with barWait := some (b, br.gen) })
    | .once o =>
      let oc := m.once[o]!
      let m1 := if oc.runs == 0 then
          { m with once := m.once.set! o { oc with runs := 1 }, cnt := bump m.cnt oc.counter oc.k }
        else m
      accAdd (pop m1) ((m1.once[o]!).runs)
    | .kcreate k d =>
      -- a new key reads NULL in every thread
      let m1 := { m with keys := m.keys.set! k { live := true, dtor := d },
                         th := m.th.map (fun t => { t with vals := t.vals.filter (·.1 != k) }) }
      setTh m1 i (fun t => { t with ops := rest })
    | .kdelete k => pop { m with keys := m.keys.set! k { live := false, dtor := 0 } }
    | .kset k v => setTh (pop m) i (fun t => { t with vals := setVal t.vals k v })
    | .kget k => accAdd (pop m) (getVal t.vals k)
    | .yield | .nsleep _ | .usleep _ | .sleep0 => pop m
    | .self => accAdd (pop m) 1
    | .chk _ => accAdd (pop m) 3
    | .fin _ => pop { m with fins := m.fins + 1 }
    | .nsleepbad | .kmax => accAdd (pop m) 1

def firstEnabled (m : Machine) : Option Nat :=
  (List.range m.th.size).find? (enabled m)

def allDone (m : Machine) : Bool :=
  m.th.all (fun t => !t.started || t.finished)

/-- run under the fixed schedule "lowest-numbered enabled thread first" -/
def run : Nat → Machine → Machine
  | 0, m => { m with errs := m.errs ++ ["FUEL"] }
  | fuel + 1, m =>
    match firstEnabled m with
    | some i => run fuel (exec m i)
    | none => if allDone m then m else { m with errs := m.errs ++ ["DEADLOCK"] }

def showInts (a : Array Int) : String := ",".intercalate (a.toList.map toString)

/-- the canonical result line(s); harness/progs/pth_interp.c prints the same text -/
def result (m : Machine) : List String :=
  m.errs.map (fun e => "E " ++ e) ++
  [s!"R acc={m.mainAcc} g={showInts m.cnt} gate={showInts m.gate} d={m.dcalls},{m.dnull},{m.dsum} once={showInts (m.once.map (·.runs))}"]

/-! ### parser of the description text -/

def parseOp (tok : String) : Option Op :=
  let ps := tok.splitOn ":"
  let n (s : String) : Option Nat := s.toNat?
  let z (s : String) : Option Int := s.toInt?
  match ps with
  | ["lit", k] => (z k).map .lit
  | ["add", c, k] => do some (.add (← n c) (← z k))
  | ["tadd", c, k] => do some (.tadd (← n c) (← z k))
  | ["rd", c] => (n c).map .rd
  | ["spawn", t, m] => do some (.spawn (← n t) (← n m))
  | ["join", t] => (n t).map .join
  | ["joinn", t] => (n t).map .joinn
  | ["detach", t] => (n t).map .detach
  | ["sdetach"] => some .sdetach
  | ["post", g, k, m] => do some (.post (← n g) (← z k) (← n m))
  | ["await", g, v] => do some (.await (← n g) (← z v))
  | ["put", q, v] => do some (.put (← n q) (← z v))
  | ["get", q, c] => do some (.get (← n q) (← n c))
  | ["bar", b] => (n b).map .bar
  | ["once", o] => (n o).map .once
  | ["kcreate", k, d] => do some (.kcreate (← n k) (← n d))
  | ["kdelete", k] => (n k).map .kdelete
  | ["kset", k, v] => do some (.kset (← n k) (← z v))
  | ["kget", k] => (n k).map .kget
  | ["yield"] => some .yield
  | ["nsleep", u] => (n u).map .nsleep
  | ["usleep", u] => (n u).map .usleep
  | ["sleep0"] => some .sleep0
  | ["self"] => some .self
  | ["chk", t] => (n t).map .chk
  | ["fin", k] => (n k).map .fin
  | ["nsleepbad"] => some .nsleepbad
  | ["kmax"] => some .kmax
  | _ => none

def words (line : String) : List String := (line.splitOn " ").filter (· ≠ "")

def pairNat (s : String) : Option (Nat × Nat) :=
  match s.splitOn ":" with
  | [a, b] => do some ((← a.toNat?), (← b.toNat?))
  | _ => none

def pairNatInt (s : String) : Option (Nat × Int) :=
  match s.splitOn ":" with
  | [a, b] => do some ((← a.toNat?), (← b.toInt?))
  | _ => none

/-- add one description line to the machine being built; `none` = malformed -/
def parseLine (m : Machine) (line : String) : Option Machine :=
  match words line with
  | [] => some m
  | "counters" :: ls => some { m with cnt := (ls.map (fun _ => (0 : Int))).toArray }
  | "mutexes" :: _ => some m
  | "spins" :: _ => some m
  | "gates" :: ls => some { m with gate := (ls.map (fun _ => (0 : Int))).toArray }
  | "queues" :: ls => do
      let caps ← ls.mapM (·.toNat?)
      some { m with qcap := caps.toArray, q := (caps.map (fun _ => ([] : List Int))).toArray }
  | "barriers" :: ls => do
      let bs ← ls.mapM pairNat
      some { m with bar := (bs.map (fun p => ({ count := p.1, counter := p.2 } : Bar))).toArray }
  | "onces" :: ls => do
      let os ← ls.mapM pairNatInt
      some { m with once := (os.map (fun p => ({ counter := p.1, k := p.2 } : OnceCtl))).toArray }
  | "keys" :: [n] => do
      let k ← n.toNat?
      some { m with keys := (List.replicate k ({} : KeySlot)).toArray }
  | "family" :: _ => some m
  | "thread" :: id :: em :: ops => do
      let i ← id.toNat?
      let e ← em.toNat?
      let os ← ops.mapM parseOp
      if i != m.th.size then none else
      some { m with th := m.th.push { ops := os, exitMode := e, started := (i == 0) } }
  | _ => none

def parse (lines : List String) : Option Machine :=
  lines.foldlM parseLine ({} : Machine)

def fuelFor (m : Machine) : Nat :=
  4 * (m.th.foldl (fun a t => a + t.ops.length + 2) 0) + 16

/-- the sequential evaluator of a program description -/
def eval (lines : List String) : List String :=
  match parse lines with
  | none => ["E PARSE"]
  | some m => result (run (fuelFor m) m)

end Flat

/-! ## the fragment inside the description language -/

/-- flatten a term into thread bodies: `fork c b` = `spawn u; b; join u` with `u` a fresh thread
    whose body is `c`.  State: (next free thread id, bodies of finished threads). -/
def flattenAux : Prog → Nat → List (Nat × List Flat.Op) → List Flat.Op × Nat × List (Nat × List Flat.Op)
  | .ret v, n, acc => ([.lit v], n, acc)
  | .add c k, n, acc => ([.add c k], n, acc)
  | .seq a b, n, acc =>
      let (oa, n1, acc1) := flattenAux a n acc
      let (ob, n2, acc2) := flattenAux b n1 acc1
      (oa ++ ob, n2, acc2)
  | .fork c b, n, acc | .par c b, n, acc =>
      let u := n
      let (oc, n1, acc1) := flattenAux c (n + 1) acc
      let (ob, n2, acc2) := flattenAux b n1 ((u, oc) :: acc1)
      ([.spawn u 0] ++ ob ++ [.join u], n2, acc2)

def showOp : Flat.Op → String
  | .lit k => s!"lit:{k}" | .add c k => s!"add:{c}:{k}" | .spawn t m => s!"spawn:{t}:{m}" | .join t => s!"join:{t}"
  | _ => "?"

/-- description text of a fragment term (all counters protected by mutex 0, a static initialiser) -/
def toFlat (p : Prog) : List String :=
  let (o0, n, ths) := flattenAux p 1 []
  let all := (0, o0) :: ths
  let nc := max (maxCounter p) 1
  [ "counters " ++ " ".intercalate (List.replicate nc "m0"), "mutexes 0" ] ++
  (List.range n).map (fun i =>
    match all.find? (·.1 == i) with
    | some (_, ops) => s!"thread {i} 0 " ++ " ".intercalate (ops.map showOp)
    | none => s!"thread {i} 0")

/-- result line of a fragment term computed by the PROVED evaluator `eval` -/
def evalLine (p : Prog) : String :=
  let r := eval p (fun _ => 0)
  let nc := max (maxCounter p) 1
  s!"R acc={r.1} g={",".intercalate ((List.range nc).map (fun i => toString (r.2 i)))} gate= d=0,0,0 once="

end MythVerif.PthProg
