import MythVerif.Basic.Upd
import MythVerif.Basic.Run
import MythVerif.Generated.Consts
/-!
Model of `myth_once_body` / `myth_once_try_set` / `myth_once_wait_until` (src/myth_sync_func.h;
`pthread_once` of src/myth_wrap_pthread.c forwards to the same body) at shared-access
granularity, for one once-control and an unbounded set of callers.

```
s = once->state;                                   -- read        (ONCE_READ)
if (s == init) {
  if (CAS(&once->state, init, in_progress)) {      -- cas true    (ONCE_CAS 1)
    init_routine();                                -- routineStep* ; routineEnd
    once->state = completed;                       -- storeDone   (ONCE_DONE)   return
  }                                                -- cas false   (ONCE_CAS 0)
}
s = once->state;                                   -- waitRead    (ONCE_WAIT_READ)
while (s != completed) { myth_yield();             -- yield
                         s = once->state; }        -- waitRead
return
```

The numeric values of the three states are the translator's (`MythVerif.Gen.once*`, regenerated
from include/myth/myth.h on every run).  The init routine is an ARBITRARY finite number of
`routineStep` labels of the winner: a routine step changes nothing the once protocol can see, and
every other caller may take any number of steps between two routine steps — this is how a routine
that yields, blocks on a mutex or creates and joins threads appears to the once-control.
Ghost fields: `execs` (how many times the routine was started), `runner` (who started it),
`routineDone`, `returns` (how many calls have returned).
-/
namespace MythVerif.Once

abbrev Tid := Nat

abbrev sInit : Nat := Gen.onceInit
abbrev sProg : Nat := Gen.onceInProgress
abbrev sDone : Nat := Gen.onceCompleted

inductive PC where
  | idle      -- not inside a call (never called, or returned)
  | rd        -- read `init`, about to CAS
  | run       -- won the CAS: inside the init routine
  | fin       -- the init routine has returned, `completed` not yet stored
  | wait      -- inside myth_once_wait_until, about to (re-)read the word
  | yld       -- read a value other than `completed`, about to yield
  deriving DecidableEq, Repr

structure St where
  state : Nat
  pc : Tid → PC
  -- ghosts
  execs : Nat             -- number of times the init routine was started
  runner : Option Tid     -- who started it
  routineDone : Bool      -- the init routine has returned
  returns : Nat           -- number of calls of myth_once that have returned

/-- a zero-initialised once-control (`PTHREAD_ONCE_INIT`, `MYTH_ONCE_INIT`) -/
def init : St :=
  { state := 0, pc := fun _ => .idle, execs := 0, runner := none, routineDone := false, returns := 0 }

inductive Lbl where
  | read (t : Tid) (v : Nat)        -- the entry read
  | cas (t : Tid) (ok : Bool)       -- CAS init -> in_progress
  | routineStep (t : Tid)           -- one step of the init routine (may be a yield, a block, a create ...)
  | routineEnd (t : Tid)            -- the init routine returns
  | storeDone (t : Tid)             -- store `completed`; the winner returns
  | waitRead (t : Tid) (v : Nat)    -- read inside the wait loop; returns iff v = completed
  | yield (t : Tid)                 -- myth_yield inside the wait loop
  deriving DecidableEq, Repr

def Lbl.actor : Lbl → Tid
  | .read t _ | .cas t _ | .routineStep t | .routineEnd t | .storeDone t | .waitRead t _ | .yield t => t

/-- one shared access.  `none` = this access (with this observed value) is impossible here. -/
def step (s : St) : Lbl → Option St
  | .read t v =>
      if v = s.state ∧ s.pc t = .idle then
        (if v = sInit then some { s with pc := upd s.pc t .rd }
         else some { s with pc := upd s.pc t .wait })
      else none
  | .cas t ok =>
      if s.pc t = .rd ∧ ok = decide (s.state = sInit) then
        (if ok then some { s with state := sProg, pc := upd s.pc t .run, execs := s.execs + 1, runner := some t }
         else some { s with pc := upd s.pc t .wait })
      else none
  | .routineStep t =>
      if s.pc t = .run then some s else none
  | .routineEnd t =>
      if s.pc t = .run then some { s with pc := upd s.pc t .fin, routineDone := true } else none
  | .storeDone t =>
      if s.pc t = .fin then some { s with state := sDone, pc := upd s.pc t .idle, returns := s.returns + 1 }
      else none
  | .waitRead t v =>
      if v = s.state ∧ s.pc t = .wait then
        (if v = sDone then some { s with pc := upd s.pc t .idle, returns := s.returns + 1 }
         else some { s with pc := upd s.pc t .yld })
      else none
  | .yield t =>
      if s.pc t = .yld then some { s with pc := upd s.pc t .wait } else none

/-- the caller is executing (or has just finished) the init routine -/
def inRoutine : PC → Bool
  | .run | .fin => true
  | _ => false

/-- the caller is inside the wait loop -/
def waiting : PC → Bool
  | .wait | .yld => true
  | _ => false

/-- the step makes its actor return from `myth_once` -/
def isReturn (s s' : St) : Prop := s'.returns = s.returns + 1

end MythVerif.Once
