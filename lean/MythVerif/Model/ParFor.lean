import MythVerif.Model.Bulk
/-!
# Model of `mtbb::parallel_for` (C17)

Transcribed from `src/mtbb/parallel_for.h`.  `Index` is modelled as `Int` (no overflow: the
theorems are about mathematical integers; C's `/` on a signed `Index` is `Int.tdiv`).

* `auxF` — `parallel_for_aux(first, a, b, step, f)`: `if (b - a == 1) f(first + a*step); else
  { c = a + (b - a)/2; tg.run(aux[a,c)); aux[c,b); tg.wait(); }`.  There is **no** base case for
  `b - a <= 0`, hence the fuel: `none` = the recursion did not finish within the fuel.
* `parForPinned*` — the entry points of the pinned snapshot (no test of the range).
* `parFor*` — the entry points of the current source: `if (!(first < last)) return f;` first.
* `grainAuxF`, `parForGrain*` — the grain-size form, body called on `[lo,hi)` chunks.
* `rangeF` — the range-class form over a `blocked_range`-like range `(begin, end, grain)`
  with `empty() = !(begin < end)`, `is_divisible() = grain < end - begin`, split in the middle.

Core Lean only (linked into `drv_bulk`).
-/
namespace MythVerif.ParFor
open MythVerif.Bulk

/-- observable events: the body called on an index / on a chunk `[lo,hi)` -/
inductive Ev where
  | call (i : Int)
  | chunk (lo hi : Int)
deriving Repr, DecidableEq

/-- `parallel_for_aux` -/
def auxF (first step : Int) : Nat → Int → Int → Option (FJ Ev)
  | 0, _, _ => none
  | fuel + 1, a, b =>
    if b - a = 1 then some (.leaf [Ev.call (first + a * step)])
    else
      let c := a + Int.tdiv (b - a) 2
      match auxF first step fuel a c, auxF first step fuel c b with
      | some l, some r => some (.fork [] l r [])
      | _, _ => none

/-- number of iterations computed by the 4-argument form: `(last - first + step - 1) / step` -/
def count (first last step : Int) : Int := Int.tdiv (last - first + step - 1) step

/-- pinned `parallel_for(first, last, step, f)` -/
def parForPinnedStep (first last step : Int) (fuel : Nat) : Option (FJ Ev) :=
  auxF first step fuel 0 (count first last step)

/-- pinned `parallel_for(first, last, f)` -/
def parForPinned (first last : Int) (fuel : Nat) : Option (FJ Ev) :=
  auxF first 1 fuel 0 (last - first)

/-- current `parallel_for(first, last, step, f)` -/
def parForStep (first last step : Int) (fuel : Nat) : Option (FJ Ev) :=
  if ¬ first < last then some (.leaf []) else auxF first step fuel 0 (count first last step)

/-- current `parallel_for(first, last, f)` -/
def parFor (first last : Int) (fuel : Nat) : Option (FJ Ev) :=
  if ¬ first < last then some (.leaf []) else auxF first 1 fuel 0 (last - first)

/-- `parallel_for_grainsize_aux` -/
def grainAuxF (first step grain : Int) : Nat → Int → Int → Option (FJ Ev)
  | 0, _, _ => none
  | fuel + 1, a, b =>
    if b - a ≤ grain then some (.leaf [Ev.chunk (first + a * step) (first + b * step)])
    else
      let c := a + Int.tdiv (b - a) 2
      match grainAuxF first step grain fuel a c, grainAuxF first step grain fuel c b with
      | some l, some r => some (.fork [] l r [])
      | _, _ => none

/-- pinned `parallel_for(first, last, step, grainsize, f)`: the body is called on the
    (empty or reversed) chunk `[first, first + n*step)` when the range is empty -/
def parForGrainPinned (first last step grain : Int) (fuel : Nat) : Option (FJ Ev) :=
  grainAuxF first step grain fuel 0 (count first last step)

/-- current `parallel_for(first, last, step, grainsize, f)` -/
def parForGrain (first last step grain : Int) (fuel : Nat) : Option (FJ Ev) :=
  if ¬ first < last then some (.leaf [])
  else grainAuxF first step grain fuel 0 (count first last step)

/-- range-class form `parallel_for(const Range&, Body&)` on `(begin, end, grain)` -/
def rangeF (grain : Int) : Nat → Int → Int → Option (FJ Ev)
  | 0, _, _ => none
  | fuel + 1, b, e =>
    if ¬ b < e then some (.leaf [])
    else if ¬ grain < e - b then some (.leaf [Ev.chunk b e])
    else
      let m := b + Int.tdiv (e - b) 2
      match rangeF grain fuel b m, rangeF grain fuel m e with
      | some l, some r => some (.fork [] l r [])
      | _, _ => none

/-- the sequential loop `for (i = first; i < last; i += step) f(i)` (fuel = an upper bound of
    the trip count; `(last - first).toNat` is one when `step ≥ 1`) -/
def seqLoopF (last step : Int) : Nat → Int → List Int
  | 0, _ => []
  | fuel + 1, i => if i < last then i :: seqLoopF last step fuel (i + step) else []

def seqLoop (first last step : Int) : List Int := seqLoopF last step (last - first).toNat first

/-- indices the body is called on -/
def calls (es : List Ev) : List Int := es.filterMap fun | .call i => some i | _ => none

/-- chunks the body is called on -/
def chunks (es : List Ev) : List (Int × Int) := es.filterMap fun | .chunk a b => some (a, b) | _ => none

/-- the indices a chunk body `for (i = lo; i < hi; i += step)` visits, chunk after chunk -/
def covered (step : Int) (cs : List (Int × Int)) : List Int :=
  cs.flatMap fun c => seqLoop c.1 c.2 step

/-- fuel used by the driver: enough for every range with at most `n` iterations -/
def fuelFor (n : Int) : Nat := n.toNat + 1

end MythVerif.ParFor
