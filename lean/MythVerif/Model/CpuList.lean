import MythVerif.Model.Env
/-!
Model of the `MYTH_CPU_LIST` parser of `src/myth_bind_worker.c`
(`cur_char / next_char / parse_int / parse_range / parse_range_list / myth_parse_cpu_list`,
`int_list_add`, `myth_get_available_cpus`, `myth_get_worker_cpu`), statement by statement.

* the character stream `cs->a + cs->i` is the remaining suffix `rest`; `i` and `ok_pos` are kept
  because `parse_error` prints them (the caret line);
* `next_char` has two explicit failure outcomes: `.abort` = the assertion
  `assert(cs->a[cs->i] != '\n')` of the pinned snapshot fails (`chk = true` is the pinned code,
  `chk = false` the current source, where the assertion is gone), `.overrun` = the stream would
  be advanced past the terminating NUL (a read outside the string);
* `int` arithmetic wraps (`wrap32`): ISO C leaves signed overflow undefined, the library is
  compiled without optimisation and the harness observes two's-complement wrapping;
* the output array `a[0..n)` is the list of entries written so far (`int_list_add` refuses when
  `n` entries are there).
Recursion: the digit loop and the fill loop are structural; the comma loop of
`parse_range_list` is by well-founded recursion on the remaining suffix (every iteration consumes
the comma), accepted by Lean without fuel.
-/
namespace MythVerif.CpuList
open MythVerif.Env

inductive DiagKind where
  | expectedDigit   -- "expected a digit"
  | junk            -- "junk at the end of CPU list"
  | tooMany         -- "too many numbers in MYTH_CPU_LIST"
  deriving Repr, DecidableEq

/-- what `parse_error` prints: the message, `2 + ok_pos` blanks, `i - ok_pos` carets -/
structure Diag where
  kind : DiagKind
  okPos : Nat
  pos : Nat
  deriving Repr, DecidableEq

/-- `char_stream`: `rest = a + i` -/
structure Stream where
  rest : CStr
  i : Nat
  ok : Nat
  deriving Repr, DecidableEq

def nul : Char := Char.ofNat 0

/-- `cur_char` -/
def cur (s : Stream) : Char := s.rest.headD nul

inductive NextR where
  | ok (s : Stream)
  | abort
  | overrun
  deriving Repr, DecidableEq

/-- `next_char`: `assert(cs->a[cs->i] != '\n')` (pinned only), `cs->i++` -/
def next (chk : Bool) (s : Stream) : NextR :=
  match s.rest with
  | [] => .overrun
  | c :: cs =>
    if c = nul then .overrun
    else if chk && c = '\n' then .abort
    else .ok { rest := cs, i := s.i + 1, ok := s.ok }

/-- `set_ok_pos` -/
def setOk (s : Stream) : Stream := { s with ok := s.i }

inductive IntR where
  | val (s : Stream) (x : Int)
  | ng (d : Option Diag)      -- `-1`; `none`: the digits wrapped to exactly -1, no message
  | abort
  | overrun
  deriving Repr, DecidableEq

/-- the `while (isdigit(cur_char(cs)))` loop of `parse_int`; returns stream, `x`, `n_digits` -/
def digitsLoop (chk : Bool) (ok : Nat) : CStr → Nat → Int → Nat → Option (Stream × Int × Nat)
  | [], i, x, nd => some ({ rest := [], i := i, ok := ok }, x, nd)
  | c :: cs, i, x, nd =>
    if isDigit c then
      if chk && c = '\n' then none      -- `next_char`'s assertion; a digit is never a newline
      else digitsLoop chk ok cs (i + 1) (wrap32 (x * 10 + digitVal c)) (nd + 1)
    else some ({ rest := c :: cs, i := i, ok := ok }, x, nd)

/-- `parse_int`: a non-negative number, or -1 -/
def parseInt (chk : Bool) (s : Stream) : IntR :=
  match digitsLoop chk s.ok s.rest s.i 0 0 with
  | none => .abort
  | some (s', x, nd) =>
    if nd = 0 then .ng (some { kind := .expectedDigit, okPos := s'.ok, pos := s'.i })
    else if x = -1 then .ng none
    else .val s' x

/-- `for (x = a; x < b; x += c) if (!int_list_add(il, x)) fail`: `room` = `n - il->i` -/
def fill (b c : Int) : Nat → Int → List Int → Bool × List Int
  | 0, x, out => if x < b then (false, out) else (true, out)
  | room + 1, x, out =>
    if x < b then fill b c room (wrap32 (x + c)) (out ++ [x]) else (true, out)

inductive R where
  | ok (s : Stream) (out : List Int)
  | ng (d : Option Diag) (out : List Int)
  | abort
  | overrun
  deriving Repr, DecidableEq

/-- the part of `parse_range` after the first number: optional `-b` and `:c` -/
inductive TailR where
  | ok (s : Stream) (b c : Int)
  | ng (d : Option Diag)
  | abort
  | overrun

def parseTail (chk : Bool) (s1 : Stream) (a : Int) : TailR :=
  if cur s1 = '-' then
    match next chk s1 with
    | .abort => .abort
    | .overrun => .overrun
    | .ok s2 =>
      match parseInt chk s2 with
      | .abort => .abort
      | .overrun => .overrun
      | .ng d => .ng d
      | .val s3 b =>
        if cur s3 = ':' then
          match next chk s3 with
          | .abort => .abort
          | .overrun => .overrun
          | .ok s4 =>
            match parseInt chk s4 with
            | .abort => .abort
            | .overrun => .overrun
            | .ng d => .ng d
            | .val s5 c => .ok s5 b c
        else .ok s3 b 1
  else .ok s1 (wrap32 (a + 1)) 1

/-- `parse_range`: `a`, `a-b` or `a-b:c`, appended to the list (`cap` = `il->n`) -/
def parseRange (chk : Bool) (cap : Nat) (s : Stream) (out : List Int) : R :=
  match parseInt chk s with
  | .abort => .abort
  | .overrun => .overrun
  | .ng d => .ng d out
  | .val s1 a =>
    match parseTail chk s1 a with
    | .abort => .abort
    | .overrun => .overrun
    | .ng d => .ng d out
    | .ok s' b c =>
      match fill b c (cap - out.length) a out with
      | (true, out') => .ok s' out'
      | (false, out') => .ng (some { kind := .tooMany, okPos := s'.ok, pos := s'.i }) out'

/-- the remaining length after a successful `parse_int` does not grow -/
theorem digitsLoop_len (chk : Bool) (ok : Nat) :
    ∀ (l : CStr) (i : Nat) (x : Int) (nd : Nat) (s' : Stream) (x' : Int) (nd' : Nat),
      digitsLoop chk ok l i x nd = some (s', x', nd') → s'.rest.length ≤ l.length := by
  intro l
  induction l with
  | nil => intro i x nd s' x' nd' h; simp [digitsLoop] at h; rw [← h.1]; simp
  | cons c cs ih =>
    intro i x nd s' x' nd' h
    simp only [digitsLoop] at h
    split at h
    · split at h
      · simp at h
      · have := ih _ _ _ _ _ _ h; simp; omega
    · simp at h; rw [← h.1]; simp

theorem parseInt_len (chk : Bool) (s s' : Stream) (x : Int) (h : parseInt chk s = .val s' x) :
    s'.rest.length ≤ s.rest.length := by
  unfold parseInt at h
  split at h
  · simp at h
  · rename_i s1 x1 nd heq
    split at h
    · simp at h
    · split at h
      · simp at h
      · simp at h; rw [← h.1]; exact digitsLoop_len chk _ _ _ _ _ _ _ _ heq

theorem next_len (chk : Bool) (s s' : Stream) (h : next chk s = .ok s') :
    s'.rest.length + 1 = s.rest.length := by
  unfold next at h
  split at h
  · simp at h
  · rename_i c cs heq
    split at h
    · simp at h
    · split at h
      · simp at h
      · simp at h; rw [← h, heq]; simp

theorem parseTail_len (chk : Bool) (s s' : Stream) (a b c : Int)
    (h : parseTail chk s a = .ok s' b c) : s'.rest.length ≤ s.rest.length := by
  unfold parseTail at h
  split at h
  · split at h <;> try (simp at h; done)
    rename_i s2 h2
    split at h <;> try (simp at h; done)
    rename_i s3 b3 h3
    have l2 := next_len chk _ _ h2
    have l3 := parseInt_len chk _ _ _ h3
    split at h
    · split at h <;> try (simp at h; done)
      rename_i s4 h4
      split at h <;> try (simp at h; done)
      rename_i s5 c5 h5
      have l4 := next_len chk _ _ h4
      have l5 := parseInt_len chk _ _ _ h5
      simp at h; rw [← h.1]; omega
    · simp at h; rw [← h.1]; omega
  · simp at h; rw [← h.1]; exact Nat.le_refl _

theorem parseRange_len (chk : Bool) (cap : Nat) (s s' : Stream) (out out' : List Int)
    (h : parseRange chk cap s out = .ok s' out') : s'.rest.length ≤ s.rest.length := by
  unfold parseRange at h
  split at h <;> try (simp at h; done)
  rename_i s1 a h1
  split at h <;> try (simp at h; done)
  rename_i s2 b c h2
  have l1 := parseInt_len chk _ _ _ h1
  have l2 := parseTail_len chk _ _ _ _ _ h2
  split at h
  · simp at h; rw [← h.1]; omega
  · simp at h

/-- the `while (cur_char(cs) == ',')` loop of `parse_range_list` and the junk test after it -/
def rangeLoop (chk : Bool) (cap : Nat) (s : Stream) (out : List Int) : R :=
  if cur s = ',' then
    match hn : next chk s with
    | .abort => .abort
    | .overrun => .overrun
    | .ok s1 =>
      match hr : parseRange chk cap s1 out with
      | .ok s2 out2 =>
        have : s2.rest.length < s.rest.length := by
          have := next_len chk _ _ hn
          have := parseRange_len chk cap _ _ _ _ hr
          omega
        rangeLoop chk cap (setOk s2) out2
      | r => r
  else if cur s ≠ nul then
    match next chk s with
    | .abort => .abort
    | .overrun => .overrun
    | .ok s1 => .ng (some { kind := .junk, okPos := s1.ok, pos := s1.i }) out
  else .ok s out
termination_by s.rest.length
decreasing_by simpa [setOk] using this

/-- `parse_range_list` -/
def parseRangeList (chk : Bool) (cap : Nat) (s : Stream) (out : List Int) : R :=
  match parseRange chk cap s out with
  | .ok s1 out1 => rangeLoop chk cap (setOk s1) out1
  | r => r

inductive Outcome where
  | ret (r : Int) (written : List Int) (d : Option Diag)
  | abort
  | overrun
  deriving Repr, DecidableEq

/-- `myth_parse_cpu_list(var, a, n)`: `env = getenv(var)`, `cap = n`; the result is the return
    value (`-1` on a parse error, else the number of entries), the entries written to `a` and the
    diagnostic printed -/
def parseCpuList (chk : Bool) (env : Option CStr) (cap : Nat) : Outcome :=
  match env with
  | none => .ret 0 [] none
  | some str =>
    match parseRangeList chk cap { rest := str, i := 0, ok := 0 } [] with
    | .ok _ out => .ret out.length out none
    | .ng d out => .ret (-1) out d
    | .abort => .abort
    | .overrun => .overrun

/-- `N_MAX_CPUS` = `CPU_SETSIZE` (printed by the unit harness and compared on every run) -/
def nMaxCpus : Nat := 1024

/-- `CPU_ISSET(c, &cset)` for an `int` argument: the macro converts to `size_t` and tests the
    bound first, so negative and too large numbers are simply "not in the set" -/
def cpuIsSet (avail : Nat → Bool) (c : Int) : Bool :=
  decide (0 ≤ c) && decide (c < nMaxCpus) && avail c.toNat

structure Avail where
  workerCpu : List Int      -- `worker_cpu[0 .. n_available_cpus)`
  malformed : Bool          -- "myth: malformed MYTH_CPU_LIST ignored" printed
  noCpus : Bool             -- "myth: could not get any available CPUs…" printed
  deriving Repr, DecidableEq

/-- `myth_get_available_cpus` (with `HAVE_SYSCONF`, `HAVE_SCHED_GETAFFINITY`); `ncpu` is
    `sysconf(_SC_NPROCESSORS_ONLN)`, `avail` the affinity mask.  `none` = the parser aborted. -/
def availableCpus (chk : Bool) (env : Option CStr) (ncpu : Nat) (avail : Nat → Bool) : Option Avail :=
  match parseCpuList chk env nMaxCpus with
  | .abort => none
  | .overrun => none
  | .ret r written _ =>
    let malformed := decide (r = -1)
    let nspec : Int := if r = -1 then 0 else r
    let list : List Int := if nspec = 0 then (List.range ncpu).map (fun (i : Nat) => (i : Int)) else written
    let w := list.filter (cpuIsSet avail)
    some { workerCpu := w, malformed := malformed, noCpus := w.isEmpty }

/-- `myth_get_worker_cpu(rank)`: `-1` = do not bind -/
def workerCpu (a : Avail) (rank : Nat) : Int :=
  if a.workerCpu.length = 0 then -1 else a.workerCpu.getD (rank % a.workerCpu.length) (-1)

end MythVerif.CpuList
