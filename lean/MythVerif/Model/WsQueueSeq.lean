import MythVerif.Basic.Upd
/-! Sequential model of the work-stealing queue of `src/myth_wsqueue_func.h` (and of the two
    queue functions of `src/myth_if_native.c`: `myth_wsapi_runqueue_take` with its decision
    callback and the caching `myth_wsapi_runqueue_peek`).

    Every operation is transcribed statement by statement as a pure function on the fields the
    C code works on: `top`, `base`, the slot array `ptr` (a total function `Int → Option Elem`,
    so that an out-of-range index is representable and has to be *proved* absent), `size`, and
    the pointer word of the steal cache `wc.ptr`.  Configuration modelled: `MYTH_QUEUE_LIFO=1`,
    `QUICK_CHECK_ON_POP=1`, `QUICK_CHECK_ON_STEAL=1`, `USE_LOCK*=0`.  `myth_assert` is live in this
    configuration (`MYTH_SANITY_CHECK=1`): the assertion that is a *contract* – `clear` on an empty
    queue – is an explicit outcome; the others (`offset<0`, `t<size`, `b>0`, `base>0`) are implied by
    well-formedness (`Proofs/WsQueueSeq.lean`, clauses `pum/puv/pt3/pt7` of the SC invariant).  The
    two `abort()` guards are explicit outcomes. -/
namespace MythVerif.Wsq

abbrev Elem := Nat

/-- the C integer division `(-b-1)/2` of push's re-centring (truncation toward zero) -/
def rcOff (b : Int) : Int := Int.tdiv (-b - 1) 2

/-- `memmove(&ptr[lo+off], &ptr[lo], hi-lo)` on the slot function -/
def shiftPtr (f : Int → Option Elem) (lo hi off : Int) : Int → Option Elem :=
  fun j => if lo + off ≤ j ∧ j < hi + off then f (j - off) else f j

theorem shiftPtr_apply (f : Int → Option Elem) (lo hi off j : Int) :
    shiftPtr f lo hi off j = if lo + off ≤ j ∧ j < hi + off then f (j - off) else f j := rfl

structure Q where
  top : Int
  base : Int
  ptr : Int → Option Elem
  size : Int
  cache : Option Elem      -- wc.ptr of the steal cache (NULL = none)

/-- `myth_queue_init` -/
def Q.init (n : Int) : Q :=
  { top := n / 2, base := n / 2, ptr := fun _ => none, size := n, cache := none }

inductive Res where
  | unit                       -- void operations
  | val (r : Option Elem)      -- pop / take / peek: a thread or NULL
  | ok (b : Bool)              -- trypass
  | abort                      -- "Fatal error:Runqueue overflow" + abort()
  | diverge                    -- myth_queue_pass spinning on a queue whose base is 0
  | assertFail                 -- myth_queue_clear on a non-empty queue (myth_assert(top==base))
  deriving DecidableEq, Repr

inductive Op where
  | push (e : Elem) | pop | take | wtake (accept : Bool) | peek | wpeek
  | trypass (e : Elem) | pass (e : Elem) | put (e : Elem) | clear
  deriving DecidableEq, Repr

/-- push's re-centring block (taken at `top == size`, `base != 0`) -/
def recentreDown (q : Q) : Q :=
  let off := rcOff q.base
  { q with ptr := shiftPtr q.ptr q.base q.top off, top := q.top + off, base := q.base + off }

/-- put's shift block (taken at `base == 0`, `top != size`) -/
def recentreUp (q : Q) : Q :=
  let off := (q.size - q.top + 1) / 2
  { q with ptr := shiftPtr q.ptr q.base q.top off, top := q.top + off, base := q.base + off }

def push (q : Q) (e : Elem) : Q × Res :=
  if q.top = q.size then
    if q.base = 0 then (q, .abort)
    else
      let q1 := recentreDown q
      ({ q1 with ptr := upd q1.ptr q1.top (some e), top := q1.top + 1 }, .unit)
  else ({ q with ptr := upd q.ptr q.top (some e), top := q.top + 1 }, .unit)

def pop (q : Q) : Q × Res :=
  if q.top ≤ q.base then (q, .val none)            -- quick check
  else
    let top := q.top - 1
    let q1 := { q with top := top }
    if q1.base + 1 < top then (q1, .val (q1.ptr top))
    else if q1.base ≤ top then
      let ret := q1.ptr top
      let q2 := { q1 with ptr := upd q1.ptr top none }
      -- invalidate the steal cache when the last entry went away
      (if top ≤ q2.base then { q2 with cache := none } else q2, .val ret)
    else ({ q1 with top := q1.size / 2, base := q1.size / 2 }, .val none)

def take (q : Q) : Q × Res :=
  if q.top - q.base ≤ 0 then (q, .val none)
  else
    let b := q.base
    let q1 := { q with base := b + 1 }
    if b < q1.top then (q1, .val (q1.ptr b))
    else ({ q1 with base := b }, .val none)

/-- `myth_wsapi_runqueue_take(victim, decidefn, udata)`; `accept` is the callback's verdict
    (a NULL callback accepts) -/
def wtake (q : Q) (accept : Bool) : Q × Res :=
  if q.top - q.base ≤ 0 then (q, .val none)
  else
    let b := q.base
    let q1 := { q with base := b + 1 }
    if b < q1.top then
      if accept then ({ q1 with cache := none }, .val (q1.ptr b))
      else ({ q1 with base := b }, .val none)
    else ({ q1 with base := b }, .val none)

/-- `myth_queue_peek` -/
def peek (q : Q) : Q × Res :=
  if q.top - q.base ≤ 0 then (q, .val none)
  else if q.base < q.top then (q, .val (q.ptr q.base)) else (q, .val none)

/-- `myth_wsapi_runqueue_peek` (pointer word of the cache only) -/
def wpeek (q : Q) : Q × Res :=
  if q.top - q.base ≤ 0 then (q, .val none)
  else
    match q.cache with
    | some x => (q, .val (some x))
    | none =>
      let b := q.base
      let q1 := { q with base := b + 1 }
      let q2 := if b < q1.top then { q1 with cache := q1.ptr b } else q1
      let q3 := { q2 with base := b }
      (q3, .val q3.cache)

def trypass (q : Q) (e : Elem) : Q × Res :=
  if q.base = 0 then (q, .ok false)
  else
    let b := q.base
    ({ q with ptr := upd q.ptr (b - 1) (some e), base := b - 1 }, .ok true)

def pass (q : Q) (e : Elem) : Q × Res :=
  if q.base = 0 then (q, .diverge)
  else ((trypass q e).1, .unit)

def put (q : Q) (e : Elem) : Q × Res :=
  if q.base = 0 then
    if q.top = q.size then (q, .abort)
    else
      let q1 := recentreUp q
      let b := q1.base - 1
      ({ q1 with ptr := upd q1.ptr b (some e), base := b }, .unit)
  else
    let b := q.base - 1
    ({ q with ptr := upd q.ptr b (some e), base := b }, .unit)

def clear (q : Q) : Q × Res :=
  if q.top = q.base then ({ q with base := q.size / 2, top := q.size / 2 }, .unit)
  else (q, .assertFail)

def exec (q : Q) : Op → Q × Res
  | .push e => push q e
  | .pop => pop q
  | .take => take q
  | .wtake a => wtake q a
  | .peek => peek q
  | .wpeek => wpeek q
  | .trypass e => trypass q e
  | .pass e => pass q e
  | .put e => put q e
  | .clear => clear q

/-- a result after which the C program does not continue -/
def Res.fatal : Res → Bool
  | .abort | .diverge | .assertFail => true
  | _ => false

/-- step function of sequential histories: a fatal outcome ends the history -/
def seqStep (q : Q) (op : Op) : Option Q :=
  if (exec q op).2.fatal then none else some (exec q op).1

/-- the slots `f b, f (b+1), …, f (b+n-1)` -/
def slots (f : Int → Option Elem) (b : Int) : Nat → List (Option Elem)
  | 0 => []
  | n + 1 => f b :: slots f (b + 1) n

/-- abstraction: the contents of the slots `[base, top)`, base side first -/
def Q.abs (q : Q) : List (Option Elem) := slots q.ptr q.base (q.top - q.base).toNat

end MythVerif.Wsq
