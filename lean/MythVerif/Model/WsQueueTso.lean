import MythVerif.Model.WsQueue
/-! x86-TSO model of the work-stealing queue: owner `push` / `pop` (all paths: lock-free fast
    path, locked slow path with the invalidation of the steal cache, reset) and owner `put`
    (base-side insert under the lock), both with re-centring, and `clear`, against any number of other
    participants running `myth_queue_take`, `myth_queue_trypass`, `myth_queue_peek` (lock-free
    loads of `base`, `top` and one slot; the value is a hint to the caller and nothing is removed),
    `myth_wsapi_runqueue_take` (trylock, decision callback: label `tDecide`; a decline rolls `base`
    back) and the caching `myth_wsapi_runqueue_peek` (`/repo/src/myth_if_native.c`).  Of the steal
    cache only its pointer word `wc->ptr` is modelled (memory word `cache`, buffer entry
    `Sto.cache`), as in the SC model: `seq`, `size` and `data` carry the advisory copy of the hint
    and do not influence the queue.

    Machine (DESIGN 3.2 / A.3): one FIFO store buffer per participant; a store appends to the
    own buffer; a load forwards from the newest own buffered store to that location, else reads
    memory; the label `flushO` / `flushT p` drains the oldest entry of a buffer into memory; a
    hardware fence (`myth_rbarrier` / `myth_rwbarrier` = `xchg` under `MYTH_BARRIER_CILK`) and a
    locked read-modify-write (the trylock CAS) are enabled only on an empty own buffer;
    `myth_wbarrier` is a compiler barrier and is no step at all.  The release store of
    `myth_spin_unlock_body` is performed on memory directly after its fence (trusted-base note in
    DESIGN A.3); with `unlockFence := false` it is buffered like any other store.

    The fence positions are a parameter (`FenceCfg`): the theorems are about `FenceCfg.code`
    (all fences of the source present), the driver can switch each one off and search the
    machine for a lost or duplicated element (the violation search for "missing fence" changes,
    which SC interleavings cannot exhibit).

    Base-side insertions (put, trypass) linearize at the DRAIN of their `base` store (DESIGN A.3):
    that store is the buffer entry `Sto.baseI v e`, a store of `v` to `base` carrying the ghost tag
    `e` (the element whose slot store precedes it in the same FIFO buffer); draining it conses `e`
    to the abstract deque.

    Re-centring (push at `top == size`, put at `base == 0`; both under the lock, entered with an
    empty buffer because the lock CAS is a locked instruction).  The `memmove` of the live window
    is ONE buffer entry `Sto.shift lo hi off`; draining it moves the slots `[lo, hi)` by `off` in
    memory.  The stores of `top` and `base` that follow are ordinary entries behind it, and so
    are – for put – the slot store and the inserting `base` store of the insertion proper (no
    fence separates them from the re-centring: the owner's buffer can hold all five).  Why one
    entry is enough: the individual slot stores of `memmove` could only be told apart by a load
    of a slot that happens while some of them have drained and others have not.  Slots are
    loaded by (i) a participant holding the queue lock (take's `tk3`) – excluded until the
    owner's unlock, whose fence drains the whole buffer first; (ii) the owner itself, which
    forwards from its own buffer and sees the moved window whatever has drained; (iii) the
    lock-free `myth_queue_peek` (`pk3`), whose value the model does not record at all, i.e. it
    may be anything.  The other lock-free loads (the quick checks `tq0/tq1`, `kq0/kq1`, peek's
    `pk1/pk2`) read `top` / `base` only – whatever memory holds at that moment, possibly the
    half-updated pair in the middle of a re-centring – and nothing in the invariant or in the
    theorems constrains the values they read: a take re-reads both under the lock, peek is
    advisory.  The logical window `lb`/`lt` moves when the shift entry drains (memory-side
    clauses stay valid as they are); the ghost `sh` is the offset of a shift entry that is still
    buffered (0 otherwise), so that `lb + sh` / `lt + sh` are the owner's view of `base` / `top`.
    `stuck` / `stuckL` are the two `abort()`s ("Runqueue overflow": `top == size ∧ base == 0`),
    reached holding the lock.

    `myth_queue_clear` (lock; `myth_assert(top == base)` – its failure is the pc `assertFail`;
    `base = size/2`; `top = base`; unlock) completes the list: every operation of
    `myth_wsqueue_func.h` and the two queue functions of `myth_if_native.c` are in the machine. -/
namespace MythVerif.WsqTso
open MythVerif.Wsq

structure FenceCfg where
  pushRb : Bool      -- myth_wsqueue_rbarrier after `t = q->top` in push
  popFence : Bool    -- myth_wsqueue_rwbarrier after `q->top = top` in pop
  takeFence : Bool   -- myth_wsqueue_rwbarrier after `q->base = b+1` in take
  unlockFence : Bool -- myth_rwbarrier before the releasing store
  wtakeFence : Bool  -- myth_wsqueue_rwbarrier after `q->base = b+1` in myth_wsapi_runqueue_take
  wpeekFence : Bool  -- myth_wsqueue_rwbarrier after `q->base = b+1` in myth_wsapi_runqueue_peek
  deriving DecidableEq, Repr

/-- the fences of the source code -/
def FenceCfg.code : FenceCfg := ⟨true, true, true, true, true, true⟩

inductive Sto where
  | top (v : Int)
  | base (v : Int)
  | ptr (i : Int) (x : Option Elem)
  | unlock
  | baseI (v : Int) (e : Elem)       -- store of `base` by put / trypass (ghost tag: the element inserted)
  | shift (lo hi off : Int)          -- memmove(&ptr[lo+off], &ptr[lo], hi-lo) of a re-centring
  | cache (x : Option Elem)          -- wc->ptr = x
  deriving DecidableEq, Repr

inductive OPc where
  | idle
  | stuck                            -- push: abort() at top == size && base == 0 (lock held)
  | pu0 (e : Elem)                   -- t = q->top
  | pu0f (e : Elem) (t : Int)        -- rbarrier ; if (t == q->size)
  | pul (e : Elem)                   -- lock CAS
  | pub (e : Elem)                   -- if (q->base == 0) abort ; offset = (-q->base-1)/2
  | pum (e : Elem) (off : Int)       -- memmove
  | pus (e : Elem) (off : Int)       -- q->top += offset
  | puv (e : Elem) (off : Int)       -- q->base += offset ; t = q->top
  | pux (e : Elem) (t : Int)         -- unlock
  | pu1 (e : Elem) (t : Int)         -- q->ptr[t] = th
  | pu2 (e : Elem) (t : Int)         -- q->top = t+1
  | pq                               -- quick check
  | po1                              -- q->top = top-1
  | pof (t : Int)                    -- rwbarrier
  | po2 (t : Int)                    -- base = q->base ; base+1 < top ?
  | po3 (t : Int) (x : Elem)         -- ret = q->ptr[top]
  | pol (t : Int)                    -- lock CAS
  | po4 (t : Int)                    -- base = q->base ; base <= top ?
  | po5 (t : Int) (x : Elem)         -- ret = q->ptr[top]
  | po5b (t : Int) (r : Option Elem) -- q->ptr[top] = NULL
  | po5c (t : Int) (r : Option Elem) -- if (top <= base)
  | po5d (r : Option Elem)           -- wc->ptr = NULL
  | po6 (r : Option Elem)            -- unlock
  | po7                              -- q->top = size/2
  | po8                              -- q->base = size/2
  | po9                              -- unlock
  | stuckL                           -- put: abort() at base == 0 && top == size (lock held)
  | ptl (e : Elem)                   -- lock CAS
  | pt1 (e : Elem)                   -- if (q->base == 0)
  | pt2 (e : Elem)                   -- if (q->top == q->size) abort ; offset = (size-top+1)/2
  | pt3 (e : Elem) (off : Int)       -- memmove
  | pt4 (e : Elem) (off : Int)       -- q->top += offset
  | pt5 (e : Elem) (off : Int)       -- q->base += offset
  | pt6 (e : Elem)                   -- b = q->base
  | pt7 (e : Elem) (b : Int)         -- q->ptr[b-1] = th
  | pt8 (e : Elem) (b : Int)         -- q->base = b-1
  | pt9                              -- unlock
  -- clear
  | assertFail                       -- myth_assert(q->top == q->base) of clear violated (lock held)
  | cll                              -- lock CAS
  | cl1                              -- (assert top == base) q->base = size/2
  | cl2                              -- q->top = q->base
  | cl3                              -- unlock
  deriving DecidableEq, Repr

inductive TPc where
  | idle
  | tq0 | tq1 (t : Int)
  | tkl                              -- lock CAS
  | tk1                              -- b = q->base ; q->base = b+1
  | tkf (b : Int)                    -- rwbarrier
  | tk2 (b : Int)                    -- top = q->top ; b < top ?
  | tk3 (b : Int) (x : Elem)         -- rbarrier ; ret = q->ptr[b]
  | tk4 (r : Option Elem)            -- unlock
  | tk5 (b : Int)                    -- q->base = b
  | tk6                              -- unlock
  | tpl (e : Elem)                   -- trylock CAS (failure: return 0)
  | tp1 (e : Elem)                   -- if (q->base == 0)
  | tp1b (e : Elem)                  -- b = q->base
  | tp2 (e : Elem) (b : Int)         -- q->ptr[b-1] = th          (wbarrier: compiler only)
  | tp3 (e : Elem)                   -- q->base--
  | tp4 (ok : Bool)                  -- unlock ; return ok
  | kq0 | kq1 (t : Int)              -- peek: quick check
  | pk1                              -- b = q->base            (no lock)
  | pk2 (b : Int)                    -- top = q->top ; b < top ?
  | pk3 (b : Int)                    -- rbarrier ; ret = q->ptr[b]   (returned as a hint, nothing removed)
  -- myth_wsapi_runqueue_take
  | wq0 | wq1 (t : Int)
  | wtl                              -- trylock CAS (failure returns NULL)
  | wk1                              -- b = q->base ; q->base = b+1
  | wkf (b : Int)                    -- rwbarrier
  | wk2 (b : Int)                    -- top = q->top ; b < top ?
  | wk3 (b : Int)                    -- ret = q->ptr[b]
  | wkd (b : Int) (r : Option Elem)  -- decidefn(ret, udata)              (LP on accept)
  | wk4 (r : Option Elem)            -- wc->ptr = NULL
  | wk4u (r : Option Elem)           -- unlock ; return ret
  | wk5 (b : Int)                    -- q->base = b
  | wk6                              -- unlock ; return NULL
  -- myth_wsapi_runqueue_peek (pointer word of the steal cache)
  | vq0 | vq1 (t : Int)
  | vc0                              -- if (!wc->ptr)
  | vl                               -- trylock CAS (failure: goto start)
  | vc1                              -- if (!wc->ptr) again, under the lock
  | vk1                              -- b = q->base ; q->base = b+1
  | vkf (b : Int)                    -- rwbarrier
  | vk2 (b : Int)                    -- top = q->top ; b < top ?
  | vk3 (b : Int)                    -- th = q->ptr[b]
  | vk4 (b : Int) (r : Option Elem)  -- wc->ptr = th
  | vk5 (b : Int)                    -- q->base = b
  | vu                               -- unlock
  | vr                               -- ret = wc->ptr ; return   (a hint, not recorded)
  deriving DecidableEq, Repr

structure St where
  cfg  : FenceCfg
  top  : Int
  base : Int
  ptr  : Int → Option Elem
  size : Int
  lock : Holder
  cache : Option Elem
  bufO : List Sto
  bufT : Pid → List Sto
  opc  : OPc
  tpc  : Pid → TPc
  -- ghosts
  A    : List Elem
  lb   : Int
  lt   : Int
  tr   : Bool
  flO  : Option Elem
  flT  : Option Elem
  retd : List Elem
  ins  : List Elem
  sh   : Int        -- offset of a buffered (not yet drained) shift entry, else 0

def init (cfg : FenceCfg) (n : Int) : St :=
  { cfg := cfg, top := n / 2, base := n / 2, ptr := fun _ => none, size := n, lock := .free, cache := none,
    bufO := [], bufT := fun _ => [], opc := .idle, tpc := fun _ => .idle,
    A := [], lb := n / 2, lt := n / 2, tr := false, flO := none, flT := none, retd := [], ins := [],
    sh := 0 }

/-- newest buffered value of `top`, else the given (memory) value -/
def viewTop : List Sto → Int → Int
  | [], m => m
  | .top v :: r, _ => viewTop r v
  | .base _ :: r, m => viewTop r m
  | .ptr _ _ :: r, m => viewTop r m
  | .unlock :: r, m => viewTop r m
  | .baseI _ _ :: r, m => viewTop r m
  | .shift _ _ _ :: r, m => viewTop r m
  | .cache _ :: r, m => viewTop r m
def viewBase : List Sto → Int → Int
  | [], m => m
  | .base v :: r, _ => viewBase r v
  | .top _ :: r, m => viewBase r m
  | .ptr _ _ :: r, m => viewBase r m
  | .unlock :: r, m => viewBase r m
  | .baseI v _ :: r, _ => viewBase r v
  | .shift _ _ _ :: r, m => viewBase r m
  | .cache _ :: r, m => viewBase r m
def viewPtr : List Sto → (Int → Option Elem) → Int → Option Elem
  | [], m, i => m i
  | .ptr j x :: r, m, i => viewPtr r (upd m j x) i
  | .top _ :: r, m, i => viewPtr r m i
  | .base _ :: r, m, i => viewPtr r m i
  | .unlock :: r, m, i => viewPtr r m i
  | .baseI _ _ :: r, m, i => viewPtr r m i
  | .shift lo hi off :: r, m, i => viewPtr r (shiftPtr m lo hi off) i
  | .cache _ :: r, m, i => viewPtr r m i
def viewCache : List Sto → Option Elem → Option Elem
  | [], m => m
  | .cache x :: r, _ => viewCache r x
  | .top _ :: r, m => viewCache r m
  | .base _ :: r, m => viewCache r m
  | .ptr _ _ :: r, m => viewCache r m
  | .unlock :: r, m => viewCache r m
  | .baseI _ _ :: r, m => viewCache r m
  | .shift _ _ _ :: r, m => viewCache r m

/-- drain one store into memory (ghost `tr` follows the memory value of `base`; the drain of an
    inserting `base` store is the linearization point of put / trypass; the drain of a shift moves
    the logical window together with the slots) -/
def applySto (s : St) : Sto → St
  | .top v => { s with top := v }
  | .base v => { s with base := v, tr := decide (v = s.lb + 1) }
  | .ptr i x => { s with ptr := upd s.ptr i x }
  | .unlock => { s with lock := .free }
  | .baseI v e => { s with base := v, tr := false, A := e :: s.A, lb := s.lb - 1, ins := e :: s.ins }
  | .shift lo hi off => { s with ptr := shiftPtr s.ptr lo hi off, lb := s.lb + off, lt := s.lt + off, sh := 0 }
  | .cache x => { s with cache := x }

inductive Lbl where
  | oPush (e : Elem) | oPop | oPut (e : Elem) | oClear | o | flushO
  | tTake (p : Pid) | tPass (p : Pid) (e : Elem) | tPeek (p : Pid) | tWTake (p : Pid) | tWPeek (p : Pid)
  | t (p : Pid) | flushT (p : Pid)
  | tDecide (p : Pid) (accept : Bool)                       -- the decision callback returns
  deriving DecidableEq, Repr

/-- fence: enabled on an empty buffer (or always, when that fence is switched off) -/
def fenceOk (on : Bool) (buf : List Sto) : Bool := !on || buf.isEmpty

/-- the releasing store of unlock: after the fence it goes to memory at once; without the fence it
    is buffered behind the participant's earlier stores -/
def releaseO (s : St) : Option St :=
  if s.cfg.unlockFence then
    (if s.bufO.isEmpty then some { s with lock := .free } else none)
  else some { s with bufO := s.bufO ++ [.unlock] }

def releaseT (s : St) (p : Pid) : Option St :=
  if s.cfg.unlockFence then
    (if (s.bufT p).isEmpty then some { s with lock := .free } else none)
  else some { s with bufT := upd s.bufT p (s.bufT p ++ [.unlock]) }

def stepO (s : St) : Option St :=
  match s.opc with
  | .idle => none
  | .stuck => none
  | .pu0 e => some { s with opc := .pu0f e (viewTop s.bufO s.top) }
  | .pu0f e t => if fenceOk s.cfg.pushRb s.bufO then
                   (if t = s.size then some { s with opc := .pul e } else some { s with opc := .pu1 e t })
                 else none
  | .pul e => if s.bufO.isEmpty then
                match s.lock with
                | .free => some { s with lock := .owner, opc := .pub e }
                | _ => some s
              else none
  | .pub e => if viewBase s.bufO s.base = 0 then some { s with opc := .stuck }
              else some { s with opc := .pum e (rcOff (viewBase s.bufO s.base)) }
  | .pum e off => some { s with bufO := s.bufO ++ [.shift (viewBase s.bufO s.base) (viewTop s.bufO s.top) off],
                                sh := off, opc := .pus e off }
  | .pus e off => some { s with bufO := s.bufO ++ [.top (viewTop s.bufO s.top + off)], opc := .puv e off }
  | .puv e off => some { s with bufO := s.bufO ++ [.base (viewBase s.bufO s.base + off)],
                                opc := .pux e (viewTop s.bufO s.top) }
  | .pux e t => (releaseO s).map fun s' => { s' with opc := .pu1 e t }
  | .pu1 e t => some { s with bufO := s.bufO ++ [.ptr t (some e)], opc := .pu2 e t }
  | .pu2 e t => some { s with bufO := s.bufO ++ [.top (t + 1)], opc := .idle,
                              A := s.A ++ [e], lt := s.lt + 1, ins := e :: s.ins }
  | .pq => if viewTop s.bufO s.top ≤ viewBase s.bufO s.base then some { s with opc := .idle }
           else some { s with opc := .po1 }
  | .po1 => let t := viewTop s.bufO s.top - 1
            some { s with bufO := s.bufO ++ [.top t], opc := .pof t }
  | .pof t => if fenceOk s.cfg.popFence s.bufO then some { s with opc := .po2 t } else none
  | .po2 t => if viewBase s.bufO s.base + 1 < t then
                match s.A.getLast? with
                | some x => some { s with opc := .po3 t x, A := s.A.dropLast, lt := s.lt - 1, flO := some x }
                | none => some { s with opc := .po3 t 0 }      -- unreachable when the invariant holds
              else some { s with opc := .pol t }
  | .po3 t _ => some { s with opc := .idle, retd := retOpt s.retd (viewPtr s.bufO s.ptr t), flO := none }
  | .pol t => if s.bufO.isEmpty then
                match s.lock with
                | .free => some { s with lock := .owner, opc := .po4 t }
                | _ => some s
              else none
  | .po4 t => if viewBase s.bufO s.base ≤ t then
                match s.A.getLast? with
                | some x => some { s with opc := .po5 t x, A := s.A.dropLast, lt := s.lt - 1, flO := some x }
                | none => some { s with opc := .po5 t 0 }      -- unreachable when the invariant holds
              else some { s with opc := .po7 }
  | .po5 t _ => some { s with opc := .po5b t (viewPtr s.bufO s.ptr t) }
  | .po5b t r => some { s with bufO := s.bufO ++ [.ptr t none], opc := .po5c t r }
  | .po5c t r => if t ≤ viewBase s.bufO s.base then some { s with opc := .po5d r } else some { s with opc := .po6 r }
  | .po5d r => some { s with bufO := s.bufO ++ [.cache none], opc := .po6 r }
  | .po6 r => (releaseO s).map fun s' => { s' with opc := .idle, retd := retOpt s.retd r, flO := none }
  | .po7 => some { s with bufO := s.bufO ++ [.top (s.size / 2)], lt := s.size / 2, lb := s.size / 2, opc := .po8 }
  | .po8 => some { s with bufO := s.bufO ++ [.base (s.size / 2)], opc := .po9 }
  | .po9 => (releaseO s).map fun s' => { s' with opc := .idle }
  | .stuckL => none
  | .ptl e => if s.bufO.isEmpty then
                match s.lock with
                | .free => some { s with lock := .owner, opc := .pt1 e }
                | _ => some s
              else none
  | .pt1 e => if viewBase s.bufO s.base = 0 then some { s with opc := .pt2 e } else some { s with opc := .pt6 e }
  | .pt2 e => if viewTop s.bufO s.top = s.size then some { s with opc := .stuckL }
              else some { s with opc := .pt3 e ((s.size - viewTop s.bufO s.top + 1) / 2) }
  | .pt3 e off => some { s with bufO := s.bufO ++ [.shift (viewBase s.bufO s.base) (viewTop s.bufO s.top) off],
                                sh := off, opc := .pt4 e off }
  | .pt4 e off => some { s with bufO := s.bufO ++ [.top (viewTop s.bufO s.top + off)], opc := .pt5 e off }
  | .pt5 e off => some { s with bufO := s.bufO ++ [.base (viewBase s.bufO s.base + off)], opc := .pt6 e }
  | .pt6 e => some { s with opc := .pt7 e (viewBase s.bufO s.base) }
  | .pt7 e b => some { s with bufO := s.bufO ++ [.ptr (b - 1) (some e)], opc := .pt8 e b }
  | .pt8 e b => some { s with bufO := s.bufO ++ [.baseI (b - 1) e], opc := .pt9 }
  | .pt9 => (releaseO s).map fun s' => { s' with opc := .idle }
  | .assertFail => none
  | .cll => if s.bufO.isEmpty then
              match s.lock with
              | .free => some { s with lock := .owner, opc := .cl1 }
              | _ => some s
            else none
  | .cl1 => if viewTop s.bufO s.top = viewBase s.bufO s.base then
              some { s with bufO := s.bufO ++ [.base (s.size / 2)], lb := s.size / 2, lt := s.size / 2, opc := .cl2 }
            else some { s with opc := .assertFail }
  | .cl2 => some { s with bufO := s.bufO ++ [.top (viewBase s.bufO s.base)], opc := .cl3 }
  | .cl3 => (releaseO s).map fun s' => { s' with opc := .idle }

def stepT (s : St) (p : Pid) : Option St :=
  match s.tpc p with
  | .idle => none
  | .tq0 => some { s with tpc := upd s.tpc p (.tq1 (viewTop (s.bufT p) s.top)) }
  | .tq1 t => if t - viewBase (s.bufT p) s.base ≤ 0 then some { s with tpc := upd s.tpc p .idle }
              else some { s with tpc := upd s.tpc p .tkl }
  | .tkl => if (s.bufT p).isEmpty then
              match s.lock with
              | .free => some { s with lock := .thief p, tpc := upd s.tpc p .tk1 }
              | _ => some s
            else none
  | .tk1 => let b := viewBase (s.bufT p) s.base
            some { s with bufT := upd s.bufT p (s.bufT p ++ [.base (b + 1)]), tpc := upd s.tpc p (.tkf b) }
  | .tkf b => if fenceOk s.cfg.takeFence (s.bufT p) then some { s with tpc := upd s.tpc p (.tk2 b) } else none
  | .tk2 b => if b < viewTop (s.bufT p) s.top then
                match s.A with
                | x :: A' => some { s with tpc := upd s.tpc p (.tk3 b x), A := A', lb := s.lb + 1, tr := false,
                                           flT := some x }
                | [] => some { s with tpc := upd s.tpc p (.tk3 b 0) }   -- unreachable when the invariant holds
              else some { s with tpc := upd s.tpc p (.tk5 b) }
  | .tk3 b _ => some { s with tpc := upd s.tpc p (.tk4 (viewPtr (s.bufT p) s.ptr b)) }
  | .tk4 r => (releaseT s p).map fun s' =>
                { s' with tpc := upd s.tpc p .idle, retd := retOpt s.retd r, flT := none }
  | .tk5 b => some { s with bufT := upd s.bufT p (s.bufT p ++ [.base b]), tpc := upd s.tpc p .tk6 }
  | .tk6 => (releaseT s p).map fun s' => { s' with tpc := upd s.tpc p .idle }
  | .tpl e => if (s.bufT p).isEmpty then
                match s.lock with
                | .free => some { s with lock := .thief p, tpc := upd s.tpc p (.tp1 e) }
                | _ => some { s with tpc := upd s.tpc p .idle }       -- trylock failed: return 0
              else none
  | .tp1 e => if viewBase (s.bufT p) s.base = 0 then some { s with tpc := upd s.tpc p (.tp4 false) }
              else some { s with tpc := upd s.tpc p (.tp1b e) }
  | .tp1b e => some { s with tpc := upd s.tpc p (.tp2 e (viewBase (s.bufT p) s.base)) }
  | .tp2 e b => some { s with bufT := upd s.bufT p (s.bufT p ++ [.ptr (b - 1) (some e)]), tpc := upd s.tpc p (.tp3 e) }
  | .tp3 e => let b := viewBase (s.bufT p) s.base
              some { s with bufT := upd s.bufT p (s.bufT p ++ [.baseI (b - 1) e]), tpc := upd s.tpc p (.tp4 true) }
  | .tp4 _ => (releaseT s p).map fun s' => { s' with tpc := upd s.tpc p .idle }
  | .kq0 => some { s with tpc := upd s.tpc p (.kq1 (viewTop (s.bufT p) s.top)) }
  | .kq1 t => if t - viewBase (s.bufT p) s.base ≤ 0 then some { s with tpc := upd s.tpc p .idle }
              else some { s with tpc := upd s.tpc p .pk1 }
  | .pk1 => some { s with tpc := upd s.tpc p (.pk2 (viewBase (s.bufT p) s.base)) }
  | .pk2 b => if b < viewTop (s.bufT p) s.top then some { s with tpc := upd s.tpc p (.pk3 b) }
              else some { s with tpc := upd s.tpc p .idle }
  | .pk3 _ => some { s with tpc := upd s.tpc p .idle }
  | .wq0 => some { s with tpc := upd s.tpc p (.wq1 (viewTop (s.bufT p) s.top)) }
  | .wq1 t => if t - viewBase (s.bufT p) s.base ≤ 0 then some { s with tpc := upd s.tpc p .idle }
              else some { s with tpc := upd s.tpc p .wtl }
  | .wtl => if (s.bufT p).isEmpty then
              match s.lock with
              | .free => some { s with lock := .thief p, tpc := upd s.tpc p .wk1 }
              | _ => some { s with tpc := upd s.tpc p .idle }         -- trylock failed: return NULL
            else none
  | .wk1 => let b := viewBase (s.bufT p) s.base
            some { s with bufT := upd s.bufT p (s.bufT p ++ [.base (b + 1)]), tpc := upd s.tpc p (.wkf b) }
  | .wkf b => if fenceOk s.cfg.wtakeFence (s.bufT p) then some { s with tpc := upd s.tpc p (.wk2 b) } else none
  | .wk2 b => if b < viewTop (s.bufT p) s.top then some { s with tpc := upd s.tpc p (.wk3 b) }
              else some { s with tpc := upd s.tpc p (.wk5 b) }
  | .wk3 b => some { s with tpc := upd s.tpc p (.wkd b (viewPtr (s.bufT p) s.ptr b)) }
  | .wkd _ _ => none                    -- waits for the callback's verdict (label `tDecide`)
  | .wk4 r => some { s with bufT := upd s.bufT p (s.bufT p ++ [.cache none]), tpc := upd s.tpc p (.wk4u r) }
  | .wk4u r => (releaseT s p).map fun s' =>
                { s' with tpc := upd s.tpc p .idle, retd := retOpt s.retd r, flT := none }
  | .wk5 b => some { s with bufT := upd s.bufT p (s.bufT p ++ [.base b]), tpc := upd s.tpc p .wk6 }
  | .wk6 => (releaseT s p).map fun s' => { s' with tpc := upd s.tpc p .idle }
  | .vq0 => some { s with tpc := upd s.tpc p (.vq1 (viewTop (s.bufT p) s.top)) }
  | .vq1 t => if t - viewBase (s.bufT p) s.base ≤ 0 then some { s with tpc := upd s.tpc p .idle }
              else some { s with tpc := upd s.tpc p .vc0 }
  | .vc0 => match viewCache (s.bufT p) s.cache with
    | some _ => some { s with tpc := upd s.tpc p .vr }
    | none => some { s with tpc := upd s.tpc p .vl }
  | .vl => if (s.bufT p).isEmpty then
             match s.lock with
             | .free => some { s with lock := .thief p, tpc := upd s.tpc p .vc1 }
             | _ => some { s with tpc := upd s.tpc p .vq0 }           -- trylock failed: goto start
           else none
  | .vc1 => match viewCache (s.bufT p) s.cache with
    | some _ => some { s with tpc := upd s.tpc p .vu }
    | none => some { s with tpc := upd s.tpc p .vk1 }
  | .vk1 => let b := viewBase (s.bufT p) s.base
            some { s with bufT := upd s.bufT p (s.bufT p ++ [.base (b + 1)]), tpc := upd s.tpc p (.vkf b) }
  | .vkf b => if fenceOk s.cfg.wpeekFence (s.bufT p) then some { s with tpc := upd s.tpc p (.vk2 b) } else none
  | .vk2 b => if b < viewTop (s.bufT p) s.top then some { s with tpc := upd s.tpc p (.vk3 b) }
              else some { s with tpc := upd s.tpc p (.vk5 b) }
  | .vk3 b => some { s with tpc := upd s.tpc p (.vk4 b (viewPtr (s.bufT p) s.ptr b)) }
  | .vk4 b r => some { s with bufT := upd s.bufT p (s.bufT p ++ [.cache r]), tpc := upd s.tpc p (.vk5 b) }
  | .vk5 b => some { s with bufT := upd s.bufT p (s.bufT p ++ [.base b]), tpc := upd s.tpc p .vu }
  | .vu => (releaseT s p).map fun s' => { s' with tpc := upd s.tpc p .vr }
  | .vr => some { s with tpc := upd s.tpc p .idle }

/-- the decision callback of `myth_wsapi_runqueue_take` returns `accept` -/
def stepD (s : St) (p : Pid) (accept : Bool) : Option St :=
  match s.tpc p with
  | .wkd b r =>
    if accept then
      match s.A with
      | x :: A' => some { s with tpc := upd s.tpc p (.wk4 r), A := A', lb := s.lb + 1, tr := false, flT := some x }
      | [] => some { s with tpc := upd s.tpc p (.wk4 r) }             -- unreachable when the invariant holds
    else some { s with tpc := upd s.tpc p (.wk5 b) }
  | _ => none

def step (s : St) : Lbl → Option St
  | .oPush e => match s.opc with
    | .idle => some { s with opc := .pu0 e }
    | _ => none
  | .oPop => match s.opc with
    | .idle => some { s with opc := .pq }
    | _ => none
  | .oPut e => match s.opc with
    | .idle => some { s with opc := .ptl e }
    | _ => none
  | .oClear => match s.opc with
    | .idle => some { s with opc := .cll }
    | _ => none
  | .o => stepO s
  | .flushO => match s.bufO with
    | st :: rest => some (applySto { s with bufO := rest } st)
    | [] => none
  | .tTake p => match s.tpc p with
    | .idle => some { s with tpc := upd s.tpc p .tq0 }
    | _ => none
  | .tPass p e => match s.tpc p with
    | .idle => some { s with tpc := upd s.tpc p (.tpl e) }
    | _ => none
  | .tPeek p => match s.tpc p with
    | .idle => some { s with tpc := upd s.tpc p .kq0 }
    | _ => none
  | .tWTake p => match s.tpc p with
    | .idle => some { s with tpc := upd s.tpc p .wq0 }
    | _ => none
  | .tWPeek p => match s.tpc p with
    | .idle => some { s with tpc := upd s.tpc p .vq0 }
    | _ => none
  | .t p => stepT s p
  | .tDecide p a => stepD s p a
  | .flushT p => match s.bufT p with
    | st :: rest => some (applySto { s with bufT := upd s.bufT p rest } st)
    | [] => none

end MythVerif.WsqTso
