/-!
Model of the sleeping / timed-wait code (property C20), transcribed from

* `src/myth_sched_func.h`: `myth_timespec_add`, `myth_timespec_gt`, `myth_nanosleep_body`,
  `myth_usleep_body`, `myth_sleep_body`, `myth_timedjoin_body`
* `src/myth_sync_func.h`: `myth_mutex_timedlock_body`
* `src/myth_misc_func.h`: `hr_gettime` is the *clock stream* `clk : Nat → Ts` (the i-th call returns
  `clk i`); nothing is assumed about it in the model (not even monotonicity).

`time_t` and `long` are 64-bit two's-complement integers; they are modelled as `Int` together
with the explicit wrap `wrap64` where the C expression can leave the range (signed overflow is
undefined behaviour in C; `wrap64` is what the compiled x86-64 code does, and the theorems that
claim exactness carry explicit in-range hypotheses).  C's `/` and `%` truncate towards zero:
`Int.tdiv` / `Int.tmod`.

The outcomes of `myth_mutex_trylock_body` / `myth_tryjoin_body` are an arbitrary stream
`out : Nat → Bool` (the k-th attempt succeeds iff `out k`), which covers every interleaving with
the holder / the target.  A loop that need not terminate (frozen clock) is given `fuel`; `none`
means "still running after `fuel` iterations".
-/
namespace MythVerif.Time

/-- `struct timespec` -/
structure Ts where
  sec : Int
  nsec : Int
  deriving DecidableEq, Repr

def NS : Int := 1000000000
def tMax : Int := 9223372036854775807
def tMin : Int := -9223372036854775808

/-- representable in a 64-bit signed word (`time_t`, `long`) -/
def InT (x : Int) : Prop := tMin ≤ x ∧ x ≤ tMax
instance (x : Int) : Decidable (InT x) := by unfold InT; exact inferInstance

/-- two's-complement wrap of a 64-bit signed result -/
def wrap64 (x : Int) : Int := (x + 9223372036854775808) % 18446744073709551616 - 9223372036854775808

/-- a normalised timespec: `0 ≤ tv_nsec < 10^9` -/
def Norm (t : Ts) : Prop := 0 ≤ t.nsec ∧ t.nsec < NS
instance (t : Ts) : Decidable (Norm t) := by unfold Norm; exact inferInstance

/-- the instant denoted by a timespec, in nanoseconds -/
def toNs (t : Ts) : Int := t.sec * NS + t.nsec

/-- the latest representable time; no normalised in-range reading exceeds it -/
def tsSat : Ts := { sec := tMax, nsec := 999999999 }

/-- `myth_timespec_add` as in the pinned snapshot:
    `long ns = a->tv_nsec + b->tv_nsec; c->tv_nsec = ns % 1000000000;
     c->tv_sec = a->tv_sec + b->tv_sec + ns / 1000000000;` -/
def addPinned (a b : Ts) : Ts :=
  let ns := wrap64 (a.nsec + b.nsec)
  { sec := wrap64 (wrap64 (a.sec + b.sec) + Int.tdiv ns NS), nsec := Int.tmod ns NS }

/-- `myth_timespec_add` of the current source: the two `__builtin_add_overflow` steps; on overflow the
    result saturates to `tsSat` -/
def add (a b : Ts) : Ts :=
  let ns := wrap64 (a.nsec + b.nsec)
  let s1 := a.sec + b.sec
  if ¬ InT s1 then tsSat
  else
    let s2 := s1 + Int.tdiv ns NS
    if ¬ InT s2 then tsSat else { sec := s2, nsec := Int.tmod ns NS }

/-- `myth_timespec_gt`:
    `if (a->tv_sec > b->tv_sec) return 1;
     if (a->tv_sec == b->tv_sec) return a->tv_nsec > b->tv_nsec;  return 0;` -/
def gt (a b : Ts) : Bool :=
  if a.sec > b.sec then true
  else if a.sec = b.sec then decide (a.nsec > b.nsec)
  else false

/-- return codes -/
inductive Rc where
  | ok | einval | ebusy | etimedout
  deriving DecidableEq, Repr

/-- Linux errno values (what the harness prints) -/
def Rc.toNat : Rc → Nat
  | .ok => 0 | .einval => 22 | .ebusy => 16 | .etimedout => 110

/-- what the calling thread does, in program order -/
inductive Ev where
  | clock (t : Ts)        -- `hr_gettime` returned `t`
  | yield                 -- `myth_yield_body()` / `myth_yield_ex_body(local_first)`
  | attempt (ok : Bool)   -- one `myth_mutex_trylock_body` / `myth_tryjoin_body`
  deriving DecidableEq, Repr

abbrev Clock := Nat → Ts

/-- the `while (1)` loop of `myth_nanosleep_body`; `i` = index of the next clock reading:
    `hr_gettime(cur); if (myth_timespec_gt(cur, unt)) break; myth_yield_body();` -/
def sleepLoop (unt : Ts) (clk : Clock) : Nat → Nat → Option (List Ev)
  | 0, _ => none
  | f + 1, i =>
    let cur := clk i
    if gt cur unt then some [Ev.clock cur]
    else (sleepLoop unt clk f (i + 1)).map (fun tr => Ev.clock cur :: Ev.yield :: tr)

/-- the condition under which `myth_nanosleep_body` returns `EINVAL` -/
def malformed (req : Ts) : Bool :=
  decide (req.sec < 0) || decide (req.nsec < 0) || decide (req.nsec > 999999999)

/-- `myth_nanosleep_body`, parametrised by the addition (`add` = current source, `addPinned` =
    pinned snapshot).  Result: return code and the events of the call. -/
def nanosleepWith (addf : Ts → Ts → Ts) (req : Ts) (clk : Clock) (fuel : Nat) : Option (Rc × List Ev) :=
  if req.sec < 0 then some (Rc.einval, [])
  else if req.nsec < 0 then some (Rc.einval, [])
  else if req.nsec > 999999999 then some (Rc.einval, [])
  else
    let cur := clk 0
    let unt := addf cur req
    (sleepLoop unt clk fuel 1).map (fun tr => (Rc.ok, Ev.clock cur :: tr))

def nanosleep := nanosleepWith add
def nanosleepPinned := nanosleepWith addPinned

/-- `myth_usleep_body`: `req->tv_sec = usec / 1000000; req->tv_nsec = (usec % 1000000) * 1000;`
    (`useconds_t` is a 32-bit unsigned: the product is reduced mod 2^32) -/
def usleepReq (usec : Nat) : Ts :=
  { sec := ((usec / 1000000 : Nat) : Int), nsec := (((usec % 1000000) * 1000 % 4294967296 : Nat) : Int) }

def usleep (usec : Nat) (clk : Clock) (fuel : Nat) := nanosleep (usleepReq usec) clk fuel

/-- `myth_sleep_body`: `req->tv_sec = s; req->tv_nsec = 0;` -/
def sleepReq (s : Nat) : Ts := { sec := (s : Int), nsec := 0 }

def sleep (s : Nat) (clk : Clock) (fuel : Nat) := nanosleep (sleepReq s) clk fuel

/-- the `while (1)` loop shared by `myth_mutex_timedlock_body` and `myth_timedjoin_body`
    (`code` = what is returned when the deadline has passed); iteration `i` reads `clk i` and makes
    attempt number `i + 1`:
    `hr_gettime(tp); if (myth_timespec_gt(tp, abstime)) return code;
     if (try() == 0) return 0; else myth_yield_ex_body(myth_yield_option_local_first);` -/
def timedLoop (code : Rc) (abs : Ts) (clk : Clock) (out : Nat → Bool) : Nat → Nat → Option (Rc × List Ev)
  | 0, _ => none
  | f + 1, i =>
    let tp := clk i
    if gt tp abs then some (code, [Ev.clock tp])
    else if out (i + 1) then some (Rc.ok, [Ev.clock tp, Ev.attempt true])
    else (timedLoop code abs clk out f (i + 1)).map
      (fun r => (r.1, Ev.clock tp :: Ev.attempt false :: Ev.yield :: r.2))

/-- `if (try() == 0) return 0; else { …loop… }` -/
def timed (code : Rc) (abs : Ts) (clk : Clock) (out : Nat → Bool) (fuel : Nat) : Option (Rc × List Ev) :=
  if out 0 then some (Rc.ok, [Ev.attempt true])
  else (timedLoop code abs clk out fuel 0).map (fun r => (r.1, Ev.attempt false :: r.2))

/-- `myth_mutex_timedlock_body` -/
def timedlock := timed Rc.etimedout
/-- `myth_timedjoin_body` of the current source -/
def timedjoin := timed Rc.etimedout
/-- `myth_timedjoin_body` of the pinned snapshot (returned `EBUSY` on expiry) -/
def timedjoinPinned := timed Rc.ebusy

end MythVerif.Time
