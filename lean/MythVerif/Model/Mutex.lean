import MythVerif.Basic.Upd
import MythVerif.Basic.Run
/-!
Model of `myth_mutex_{lock,trylock,timedlock,unlock}_body` together with the blocking
discipline (`myth_block_on_queue`, `myth_wake_one_from_queue`) at shared-access granularity.

`word = 2 * (threads blocked or about to block) + lock bit`, exactly the C `mutex->state`.
Threads are an unbounded index set.  One label = one shared access (one MYTH_VERIF_POINT of
the implementation, so an implementation trace is a label sequence).  The sleep queue with its
internal spin lock is one atomic enqueue / dequeue (tied separately).

`timedlock` is `trylock` repeated between clock reads and yields, so it contributes only
`tryRead` / `tryCas` labels here (its deadline logic is C20).
-/
namespace MythVerif.Mutex

abbrev Tid := Nat

inductive PC where
  | idle                  -- not inside any operation on this mutex, not holding it
  | lretry                -- inside lock: must (re-)read the word (also: just woken up)
  | lr (s : Nat)          -- inside lock: read `s`
  | ann                   -- CAS +2 succeeded: announced, context not yet saved
  | annSw                 -- switching away: context saved, callback not yet run
  | asleep                -- in the sleep queue
  | hold                  -- holds the mutex (between a successful acquire and unlock)
  | tretry                -- inside trylock/timedlock: must re-read
  | tr (s : Nat)          -- inside trylock: read even `s`
  | uretry                -- inside unlock: must re-read
  | ur (s : Nat)          -- inside unlock: read `s`
  | uw                    -- unlock: CAS -2 done, spinning on the dequeue
  | uc (x : Tid)          -- unlock: dequeued `x`, lock bit still set
  deriving DecidableEq, Repr

structure St where
  word : Nat
  q : List Tid
  pc : Tid → PC
  -- ghosts (not observable; updated at the steps that change what they describe)
  owner : Option Tid       -- who owns the lock bit
  anns : List Tid          -- announced (CAS +2 done) but not yet enqueued
  woken : List Tid         -- dequeued by an unlocker whose lock bit is still set
  ready : List Tid         -- dequeued, bit cleared: the push to a run queue is pending
  uwf : Bool               -- the bit owner has done CAS -2 and not yet dequeued

def init : St :=
  { word := 0, q := [], pc := fun _ => .idle, owner := none, anns := [], woken := [], ready := [], uwf := false }

inductive Lbl where
  | lockRead (t : Tid) (v : Nat)
  | lockCas1 (t : Tid) (ok : Bool)
  | lockCas2 (t : Tid) (ok : Bool)
  | blockBegin (t : Tid)
  | cbEnq (t : Tid)
  | tryRead (t : Tid) (v : Nat)
  | tryCas (t : Tid) (ok : Bool)
  | unlockRead (t : Tid) (v : Nat)
  | unlockCas2 (t : Tid) (ok : Bool)
  | unlockCas0 (t : Tid) (ok : Bool)
  | wakeSpin (t : Tid)
  | wakeDeq (t : Tid) (x : Tid)
  | clearBit (t : Tid)
  | wakePush (x : Tid)
  deriving DecidableEq, Repr

/-- the thread performing the access (for `wakePush`: the thread being pushed) -/
def Lbl.actor : Lbl → Tid
  | .lockRead t _ | .lockCas1 t _ | .lockCas2 t _ | .blockBegin t | .cbEnq t | .tryRead t _
  | .tryCas t _ | .unlockRead t _ | .unlockCas2 t _ | .unlockCas0 t _ | .wakeSpin t
  | .wakeDeq t _ | .clearBit t => t
  | .wakePush x => x

/-- one shared access.  `none` = this access (with this observed value) is impossible here. -/
def step (s : St) : Lbl → Option St
  | .lockRead t v =>
      if v = s.word ∧ (s.pc t = .idle ∨ s.pc t = .lretry) then some { s with pc := upd s.pc t (.lr v) } else none
  | .lockCas1 t ok =>
      match s.pc t with
      | .lr v =>
          if v % 2 = 0 ∧ ok = decide (s.word = v) then
            (if ok then some { s with word := v + 1, pc := upd s.pc t .hold, owner := some t }
             else some { s with pc := upd s.pc t .lretry })
          else none
      | _ => none
  | .lockCas2 t ok =>
      match s.pc t with
      | .lr v =>
          if v % 2 = 1 ∧ ok = decide (s.word = v) then
            (if ok then some { s with word := v + 2, pc := upd s.pc t .ann, anns := t :: s.anns }
             else some { s with pc := upd s.pc t .lretry })
          else none
      | _ => none
  | .blockBegin t =>
      if s.pc t = .ann then some { s with pc := upd s.pc t .annSw } else none
  | .cbEnq t =>
      if s.pc t = .annSw then
        some { s with q := s.q ++ [t], pc := upd s.pc t .asleep, anns := s.anns.erase t }
      else none
  | .tryRead t v =>
      if v = s.word ∧ (s.pc t = .idle ∨ s.pc t = .tretry) then
        (if v % 2 = 1 then some { s with pc := upd s.pc t .idle }      -- returns EBUSY
         else some { s with pc := upd s.pc t (.tr v) })
      else none
  | .tryCas t ok =>
      match s.pc t with
      | .tr v =>
          if ok = decide (s.word = v) then
            (if ok then some { s with word := v + 1, pc := upd s.pc t .hold, owner := some t }
             else some { s with pc := upd s.pc t .tretry })
          else none
      | _ => none
  | .unlockRead t v =>
      if v = s.word ∧ v % 2 = 1 ∧ (s.pc t = .hold ∨ s.pc t = .uretry) then
        some { s with pc := upd s.pc t (.ur v) } else none
  | .unlockCas2 t ok =>
      match s.pc t with
      | .ur v =>
          if v > 1 ∧ ok = decide (s.word = v) then
            (if ok then some { s with word := v - 2, pc := upd s.pc t .uw, uwf := true }
             else some { s with pc := upd s.pc t .uretry })
          else none
      | _ => none
  | .unlockCas0 t ok =>
      match s.pc t with
      | .ur v =>
          if v = 1 ∧ ok = decide (s.word = 1) then
            (if ok then some { s with word := 0, pc := upd s.pc t .idle, owner := none }
             else some { s with pc := upd s.pc t .uretry })
          else none
      | _ => none
  | .wakeSpin t =>
      if s.pc t = .uw ∧ s.q = [] then some s else none
  | .wakeDeq t x =>
      if s.pc t = .uw then
        match s.q with
        | y :: rest =>
            if x = y then some { s with q := rest, pc := upd s.pc t (.uc x), woken := x :: s.woken, uwf := false }
            else none
        | [] => none
      else none
  | .clearBit t =>
      -- the unlock is complete for `t` at this point: when it runs inside the cond-wait callback
      -- (on behalf of a suspended `t`), `t` itself may be resumed elsewhere before the push below
      match s.pc t with
      | .uc x =>
          if s.word % 2 = 1 then
            some { s with word := s.word - 1, pc := upd s.pc t .idle, owner := none,
                          woken := s.woken.erase x, ready := x :: s.ready }
          else none
      | _ => none
  | .wakePush x =>
      -- performed by the worker that dequeued `x`
      if x ∈ s.ready then some { s with pc := upd s.pc x .lretry, ready := s.ready.erase x } else none

/-- thread `t` owns the lock bit -/
def ownsBit : PC → Bool
  | .hold | .uretry | .ur _ | .uw | .uc _ => true
  | _ => false

/-- will certainly touch the mutex again without waiting for anybody -/
def active : PC → Bool
  | .lretry | .lr _ => true
  | _ => false

end MythVerif.Mutex
