import MythVerif.Model.PthGate
/-!
# Determinate pthread programs with one-time initialisation (C16, layer 4, extension)

`OProg` = the constructors of `MythVerif.PthGate.GProg` (fork-join + lock-protected commutative
counters + monotone gates) plus `once k` — `pthread_once(&control[k], routine[k])` as the generated
test programs use it (`once` of the description language, harness/progs/pth_interp.c): every
once-control `k` has ONE fixed initialisation routine, given by the parameter
`init : Nat → List (Nat × Int)` — a list of lock-protected counter updates `(counter, amount)`
(commutative; the routine does not call `pthread_once` itself).

The state carries `done : Nat → Bool` (the once-controls) and a ghost counter `runs : Nat → Nat`
(how many times the routine of control `k` has been run; no step reads it).

* `once k` with `done k = false`: ONE atomic step performs all updates of `init k`, sets
  `done k := true` and becomes `ret 0` (POSIX: no caller of `pthread_once` returns before the
  routine has completed, so to every caller the routine appears atomic);
* `once k` with `done k = true`: becomes `ret 0`, nothing changes.

`Proofs/PthOnce.lean` proves that every complete execution ends in the closed formula in which the
routine of each control mentioned in the program and not yet done initially is counted exactly once.
-/
namespace MythVerif.PthOnce
open MythVerif.PthProg (Store Store.bump)
open MythVerif.PthGate (Gates Gates.bump)

/-- fork-join programs over lock-protected commutative counters, monotone gates and once-controls -/
inductive OProg where
  | ret (v : Int)                    -- finished with value `v` (a literal)
  | add (c : Nat) (k : Int)          -- lock; counter[c] += k; unlock   (value 0)
  | seq (a b : OProg)                -- `a` then `b`; value = sum of both
  | fork (child body : OProg)        -- create a thread for `child`, run `body`, join; value = sum
  | par (child body : OProg)         -- run-time form of `fork`: the child has been created
  | post (g : Nat) (n : Nat)         -- lock; gate[g] += n; broadcast; unlock   (value 0)
  | await (g : Nat) (n : Nat)        -- lock; while (gate[g] < n) cond_wait; unlock   (value 0)
  | once (k : Nat)                   -- pthread_once(&control[k], routine[k])   (value 0)
  deriving Repr, DecidableEq

/-- the shared state: counters, gates, once-controls, and the ghost run counters -/
structure St where
  cnt : Store
  gates : Gates
  done : Nat → Bool
  runs : Nat → Nat

/-- a configuration: the term and the shared state -/
abbrev Cfg := OProg × St

/-- perform the updates of an initialisation routine, in order -/
def applyInit : List (Nat × Int) → Store → Store
  | [], σ => σ
  | ca :: l, σ => applyInit l (σ.bump ca.1 ca.2)

/-- what an initialisation routine adds to counter `i` -/
def ieff : List (Nat × Int) → Nat → Int
  | [], _ => 0
  | ca :: l, i => (if i = ca.1 then ca.2 else 0) + ieff l i

/-- the state after the routine of control `k` has run -/
def St.fire (init : Nat → List (Nat × Int)) (s : St) (k : Nat) : St :=
  { cnt := applyInit (init k) s.cnt
    gates := s.gates
    done := fun j => if j = k then true else s.done j
    runs := fun j => if j = k then s.runs j + 1 else s.runs j }

/-- one step of the abstract interface: any thread that can move may move.  `await g n` has a step
    only when the gate has reached its threshold; `once k` runs the whole routine atomically when
    the control is not done, and is a no-op when it is. -/
inductive Step (init : Nat → List (Nat × Int)) : Cfg → Cfg → Prop where
  | add (c k s) : Step init (.add c k, s) (.ret 0, { s with cnt := s.cnt.bump c k })
  | post (g n s) : Step init (.post g n, s) (.ret 0, { s with gates := s.gates.bump g n })
  | await (g n s) : n ≤ s.gates g → Step init (.await g n, s) (.ret 0, s)
  | onceRun (k s) : s.done k = false → Step init (.once k, s) (.ret 0, s.fire init k)
  | onceSkip (k s) : s.done k = true → Step init (.once k, s) (.ret 0, s)
  | seqL (a a' b s s') : Step init (a, s) (a', s') → Step init (.seq a b, s) (.seq a' b, s')
  | seqR (v b b' s s') : Step init (b, s) (b', s') → Step init (.seq (.ret v) b, s) (.seq (.ret v) b', s')
  | seqDone (v w s) : Step init (.seq (.ret v) (.ret w), s) (.ret (v + w), s)
  | fork (c b s) : Step init (.fork c b, s) (.par c b, s)
  | parL (c c' b s s') : Step init (c, s) (c', s') → Step init (.par c b, s) (.par c' b, s')
  | parR (c b b' s s') : Step init (b, s) (b', s') → Step init (.par c b, s) (.par c b', s')
  | join (v w s) : Step init (.par (.ret v) (.ret w), s) (.ret (v + w), s)

/-- reflexive-transitive closure: an execution -/
inductive Steps (init : Nat → List (Nat × Int)) : Cfg → Cfg → Prop where
  | refl (x) : Steps init x x
  | cons (x y z) : Step init x y → Steps init y z → Steps init x z

/-- the value a term returns (awaits, posts and onces contribute nothing) -/
def oval : OProg → Int
  | .ret v => v
  | .add _ _ => 0
  | .post _ _ => 0
  | .await _ _ => 0
  | .once _ => 0
  | .seq a b => oval a + oval b
  | .fork c b => oval c + oval b
  | .par c b => oval c + oval b

/-- what the `add`s of a term still add to counter `i` (the once-routines are not included) -/
def odelta : OProg → Nat → Int
  | .ret _, _ => 0
  | .add c k, i => if i = c then k else 0
  | .post _ _, _ => 0
  | .await _ _, _ => 0
  | .once _, _ => 0
  | .seq a b, i => odelta a i + odelta b i
  | .fork c b, i => odelta c i + odelta b i
  | .par c b, i => odelta c i + odelta b i

/-- what a term still posts to gate `i` -/
def oposts : OProg → Nat → Nat
  | .ret _, _ => 0
  | .add _ _, _ => 0
  | .post g n, i => if i = g then n else 0
  | .await _ _, _ => 0
  | .once _, _ => 0
  | .seq a b, i => oposts a i + oposts b i
  | .fork c b, i => oposts c i + oposts b i
  | .par c b, i => oposts c i + oposts b i

/-- the once-controls a term mentions (one entry per call) -/
def onces : OProg → List Nat
  | .once k => [k]
  | .seq a b => onces a ++ onces b
  | .fork c b => onces c ++ onces b
  | .par c b => onces c ++ onces b
  | _ => []

/-- a list without its duplicates (the last occurrence of every element is kept) -/
def dedup : List Nat → List Nat
  | [] => []
  | x :: xs => if x ∈ dedup xs then dedup xs else x :: dedup xs

/-- `Σ_{k ∈ L, f k} (what the routine of control k adds to counter i)` -/
def initSum (init : Nat → List (Nat × Int)) (f : Nat → Bool) : List Nat → Nat → Int
  | [], _ => 0
  | k :: L, i => (if f k then ieff (init k) i else 0) + initSum init f L i

/-- what the once-routines of a term contribute to counter `i`: the routine of every control the
    term mentions that is not done yet, once per control however many calls there are -/
def ocontrib (init : Nat → List (Nat × Int)) (p : OProg) (done : Nat → Bool) (i : Nat) : Int :=
  initSum init (fun k => !done k) (dedup (onces p)) i

/-- the sequential evaluator: return value, final counters, final gates, final once-controls — the
    result of every terminating execution -/
def oeval (init : Nat → List (Nat × Int)) (p : OProg) (σ : Store) (γ : Gates) (done : Nat → Bool) :
    Int × Store × Gates × (Nat → Bool) :=
  (oval p, (fun i => σ i + odelta p i + ocontrib init p done i), (fun i => γ i + oposts p i),
   (fun k => done k || decide (k ∈ onces p)))

/-- number of steps a term still takes -/
def osize : OProg → Nat
  | .ret _ => 0
  | .add _ _ => 1
  | .post _ _ => 1
  | .await _ _ => 1
  | .once _ => 1
  | .seq a b => osize a + osize b + 1
  | .fork c b => osize c + osize b + 2
  | .par c b => osize c + osize b + 1

/-- `Blocked γ p`: `p` is not finished and **every** thread of `p` that is not finished is at an
    `await` whose gate is below its threshold (a `once` never blocks: the routine is atomic). -/
inductive Blocked (γ : Gates) : OProg → Prop where
  | await (g n) : γ g < n → Blocked γ (.await g n)
  | seqL (a b) : Blocked γ a → Blocked γ (.seq a b)
  | seqR (v b) : Blocked γ b → Blocked γ (.seq (.ret v) b)
  | parLR (c b) : Blocked γ c → Blocked γ b → Blocked γ (.par c b)
  | parL (c w) : Blocked γ c → Blocked γ (.par c (.ret w))
  | parR (v b) : Blocked γ b → Blocked γ (.par (.ret v) b)

end MythVerif.PthOnce
