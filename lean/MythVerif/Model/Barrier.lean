import MythVerif.Basic.Upd
import MythVerif.Basic.Run
/-!
Model of `myth_barrier_wait_body` (src/myth_sync_func.h) together with `myth_block_on_stack`,
`myth_wake_many_from_stack` and the CAS stack `myth_sleep_stack_push/pop`
(src/myth_sleep_queue_func.h), at shared-access granularity.

* `count` is the C `barrier->state`; `N = barrier->n_threads` is a parameter of `step` (N ≥ 1).
* `stack` is the sleep stack, head = `s->top`.  Push and pop are **two** accesses each, as in the
  code: read `top`, then CAS.  A push CAS succeeds iff the current top *pointer* equals the one
  read and links the pusher in front of whatever the stack is then (`x->next = t`, pointer
  equality: the classic Treiber push is ABA-insensitive).  A pop CAS succeeds iff the current top
  pointer equals the one read and installs the `x->next` **that was read before the CAS**
  (`nx`, carried in the program counter) – so an ABA on the top pointer would corrupt the model's
  stack exactly as it would corrupt the real one; `C06_single_popper` proves this cannot happen.
* Threads are an unbounded index set; nothing in `step` restricts who may call `wait`.  The
  hypothesis "the same N participants use the barrier" is a predicate on label sequences
  (`WellUsed`); "a participant calls wait again only after its previous wait returned" is
  structural (`read` from `idle` is the call, `ret` is the return).
* The local variables of the last arriver (`to_wake_head … to_wake_tail`, the loop index) live in
  its program counter, so several concurrent last arrivers would be representable; the proof
  shows there is at most one.
* One label = one shared access = one MYTH_VERIF_POINT of the implementation.

Ghost fields (`gen rnd arr retd serial pushed arrd old wk ldr rst`) never influence the concrete
fields `count stack pc` nor the enabledness of a label.
-/
namespace MythVerif.Barrier

abbrev Tid := Nat

/-- value returned to exactly one participant per round (`MYTH_BARRIER_SERIAL_THREAD`) -/
def SERIAL : Nat := 1

inductive PC where
  | idle                        -- outside `wait`
  | retry                       -- inside wait: must (re-)read `state`
  | rd (c : Nat)                -- read `state = c`, `c < N`
  | exited                      -- read `c ≥ N`: "excess threads", `exit(1)`
  | arr                         -- CAS +1 succeeded, not the last: about to block (context not saved)
  | sw                          -- context saved; the callback must (re-)read `top`
  | pushc (top : Option Tid)    -- callback read `top`
  | asleep                      -- pushed on the sleep stack (stays so until pushed to a run queue)
  | woken                       -- in a run queue; will return 0
  | lreset                      -- last arriver: CAS done, `state` not yet reset
  | lpop (acc : List Tid)       -- last arriver: must (re-)read `top`; `acc` popped so far (oldest first)
  | lpopc (x : Tid) (nx : List Tid) (acc : List Tid)  -- read `top = x`, `x->next = nx`
  | lpush (rem : List Tid)      -- all popped; `rem` still to be pushed to the run queue
  | lret                        -- about to return SERIAL
  deriving DecidableEq, Repr

structure St where
  count : Nat
  stack : List Tid
  pc : Tid → PC
  -- ghosts
  gen : Nat                -- number of rounds whose last arrival has happened
  rnd : Tid → Nat          -- number of waits thread `t` has returned from (= index of its current round)
  arr : Nat → Nat          -- arrivals (successful CAS +1) per round
  retd : Nat → Nat         -- returns per round
  serial : Nat → Nat       -- returns with SERIAL per round
  pushed : Nat → Nat       -- sleepers handed to a run queue per round
  arrd : List Tid          -- arrived in round `gen` (not last)
  old : List Tid           -- arrived in round `gen-1`, not yet returned from it
  wk : List Tid            -- popped from the stack, not yet pushed to a run queue
  ldr : Option Tid         -- the last arriver whose release is in progress
  rst : Bool               -- `state` holds N (between the last CAS and the reset)

def init : St :=
  { count := 0, stack := [], pc := fun _ => .idle, gen := 0, rnd := fun _ => 0, arr := fun _ => 0,
    retd := fun _ => 0, serial := fun _ => 0, pushed := fun _ => 0, arrd := [], old := [], wk := [],
    ldr := none, rst := false }

inductive Lbl where
  | read (t : Tid) (v : Nat)            -- BAR_READ
  | cas (t : Tid) (ok : Bool)           -- BAR_CAS
  | reset (t : Tid)                     -- BAR_RESET
  | popRead (t : Tid) (x : Option Tid)  -- STK_POP_READ (none: empty, the popper spins)
  | popCas (t : Tid) (ok : Bool)        -- STK_POP_CAS
  | wakePush (t : Tid) (x : Tid)        -- WAKE_PUSH
  | ret (t : Tid) (v : Nat)             -- BAR_RETURN
  | blockBegin (t : Tid)                -- BLOCK_BEGIN
  | pushRead (t : Tid) (x : Option Tid) -- STK_PUSH_READ
  | pushCas (t : Tid) (ok : Bool)       -- STK_PUSH_CAS
  deriving DecidableEq, Repr

def Lbl.actor : Lbl → Tid
  | .read t _ | .cas t _ | .reset t | .popRead t _ | .popCas t _ | .wakePush t _ | .ret t _
  | .blockBegin t | .pushRead t _ | .pushCas t _ => t

/-- one shared access of a barrier for `N` participants -/
def step (N : Nat) (s : St) : Lbl → Option St
  | .read t v =>
      if v = s.count ∧ (s.pc t = .idle ∨ s.pc t = .retry) then
        (if v < N then some { s with pc := upd s.pc t (.rd v) }
         else some { s with pc := upd s.pc t .exited })
      else none
  | .cas t ok =>
      match s.pc t with
      | .rd v =>
          if ok = decide (s.count = v) then
            (if ok then
               (if v + 1 = N then
                  some { s with count := v + 1, pc := upd s.pc t .lreset, gen := s.gen + 1,
                                arr := upd s.arr (s.rnd t) (s.arr (s.rnd t) + 1),
                                old := t :: s.arrd, arrd := [], ldr := some t, rst := true }
                else
                  some { s with count := v + 1, pc := upd s.pc t .arr,
                                arr := upd s.arr (s.rnd t) (s.arr (s.rnd t) + 1),
                                arrd := t :: s.arrd })
             else some { s with pc := upd s.pc t .retry })
          else none
      | _ => none
  | .reset t =>
      if s.pc t = .lreset then
        some { s with count := 0, rst := false,
                      pc := upd s.pc t (if N ≤ 1 then .lret else .lpop []) }
      else none
  | .popRead t x =>
      match s.pc t with
      | .lpop acc =>
          if x = s.stack.head? then
            (match s.stack with
             | [] => some s
             | y :: r => some { s with pc := upd s.pc t (.lpopc y r acc) })
          else none
      | _ => none
  | .popCas t ok =>
      match s.pc t with
      | .lpopc x nx acc =>
          if ok = decide (s.stack.head? = some x) then
            (if ok then
               some { s with stack := nx, wk := s.wk ++ [x],
                             pc := upd s.pc t (if acc.length + 2 = N then .lpush (acc ++ [x])
                                               else .lpop (acc ++ [x])) }
             else some { s with pc := upd s.pc t (.lpop acc) })
          else none
      | _ => none
  | .wakePush t x =>
      match s.pc t with
      | .lpush (y :: rem) =>
          if x = y then
            some { s with pc := upd (upd s.pc x .woken) t (if rem = [] then .lret else .lpush rem),
                          wk := s.wk.erase x,
                          pushed := upd s.pushed (s.rnd t) (s.pushed (s.rnd t) + 1) }
          else none
      | _ => none
  | .ret t v =>
      if s.pc t = .lret ∧ v = SERIAL then
        some { s with pc := upd s.pc t .idle, rnd := upd s.rnd t (s.rnd t + 1),
                      retd := upd s.retd (s.rnd t) (s.retd (s.rnd t) + 1),
                      serial := upd s.serial (s.rnd t) (s.serial (s.rnd t) + 1),
                      old := s.old.erase t, ldr := none }
      else if s.pc t = .woken ∧ v = 0 then
        some { s with pc := upd s.pc t .idle, rnd := upd s.rnd t (s.rnd t + 1),
                      retd := upd s.retd (s.rnd t) (s.retd (s.rnd t) + 1),
                      old := s.old.erase t }
      else none
  | .blockBegin t =>
      if s.pc t = .arr then some { s with pc := upd s.pc t .sw } else none
  | .pushRead t x =>
      if s.pc t = .sw ∧ x = s.stack.head? then some { s with pc := upd s.pc t (.pushc x) } else none
  | .pushCas t ok =>
      match s.pc t with
      | .pushc x =>
          if ok = decide (s.stack.head? = x) then
            (if ok then some { s with stack := t :: s.stack, pc := upd s.pc t .asleep }
             else some { s with pc := upd s.pc t .sw })
          else none
      | _ => none

/-- "the same participants use the barrier": every access is made by a thread of `P` -/
def WellUsed (P : List Tid) (ls : List Lbl) : Prop := ∀ l, l ∈ ls → l.actor ∈ P

/-- `step` restricted to the participants `P` of a barrier initialised with `P.length` -/
def pstep (P : List Tid) (s : St) (l : Lbl) : Option St :=
  if l.actor ∈ P then step P.length s l else none

/-- not yet arrived in its current round -/
def prePc : PC → Bool
  | .idle | .retry | .rd _ => true
  | _ => false

/-- arrived, not the last, not yet handed to a run queue -/
def blkPc : PC → Bool
  | .arr | .sw | .pushc _ | .asleep => true
  | _ => false

/-- the last arriver during its release -/
def ldrPc : PC → Bool
  | .lreset | .lpop _ | .lpopc _ _ _ | .lpush _ | .lret => true
  | _ => false

/-- the last arriver while it may still touch the stack -/
def popPc : PC → Bool
  | .lreset | .lpop _ | .lpopc _ _ _ => true
  | _ => false

end MythVerif.Barrier
