import MythVerif.Basic.Upd
import MythVerif.Basic.Run
/-!
Model of `myth_cond_{wait,signal,broadcast}_body` (`myth_sync_func.h`) over an abstract mutex.

The mutex is abstracted to `holder : Option Tid` with atomic acquire / release — exactly the
interface established for the real mutex by C04 (`C04_mutual_exclusion`, the lock bit).  What
is modelled at shared-access granularity is the condition variable itself: `wait` saves the
caller's context, and only the callback — running after the save — first enqueues the caller on
the condition queue and **then** releases the mutex; `signal` dequeues one thread if any and
pushes it; `broadcast` repeats that until the queue is found empty.
Threads are an unbounded index set; one label = one shared access / implementation point.
-/
namespace MythVerif.Cond

abbrev Tid := Nat

inductive PC where
  | idle
  | w0            -- wait called (holding the mutex), context not yet saved
  | wSw           -- context saved, callback not yet run
  | wQ            -- published on the condition queue (or already dequeued, not yet pushed): asleep
  | wWoken        -- pushed to a run queue; re-acquiring the mutex
  | sg            -- signal: about to dequeue
  | sgP (x : Tid) -- signal: dequeued `x`, not yet pushed
  | bc            -- broadcast: about to dequeue
  | bcP (x : Tid) -- broadcast: dequeued `x`, not yet pushed
  deriving DecidableEq, Repr

structure St where
  holder : Option Tid
  cq : List Tid
  pc : Tid → PC
  cbh : Tid → Bool             -- the wait callback of this thread has enqueued it and not yet released the mutex
  -- ghosts
  deqd : List Tid              -- dequeued, not yet pushed
  wakes : Tid → Nat            -- how often each thread has been dequeued so far
  bsnap : Tid → List Tid       -- per broadcaster: the queue when its broadcast started
  bcnt : Tid → Tid → Nat       -- per broadcaster: `wakes` when its broadcast started

def init : St :=
  { holder := none, cq := [], pc := fun _ => .idle, cbh := fun _ => false, deqd := [], wakes := fun _ => 0,
    bsnap := fun _ => [], bcnt := fun _ _ => 0 }

inductive Lbl where
  | acquire (t : Tid)
  | release (t : Tid)
  | waitStart (t : Tid)
  | blockBegin (t : Tid)
  | cbEnq (t : Tid)
  | cbRelease (t : Tid)
  | sigStart (t : Tid)
  | sigDeq (t : Tid) (x : Option Tid)
  | bcStart (t : Tid)
  | bcDeq (t : Tid) (x : Option Tid)
  | push (t : Tid) (x : Tid)
  deriving DecidableEq, Repr

def Lbl.actor : Lbl → Tid
  | .acquire t | .release t | .waitStart t | .blockBegin t | .cbEnq t | .cbRelease t
  | .sigStart t | .sigDeq t _ | .bcStart t | .bcDeq t _ | .push t _ => t

def step (s : St) : Lbl → Option St
  | .acquire t =>
      if s.holder = none ∧ s.pc t = .idle then some { s with holder := some t }
      else if s.holder = none ∧ s.pc t = .wWoken then
        some { s with holder := some t, pc := upd s.pc t .idle }      -- wait returns, mutex held
      else none
  | .release t =>
      if s.holder = some t ∧ s.pc t = .idle then some { s with holder := none } else none
  | .waitStart t =>
      if s.holder = some t ∧ s.pc t = .idle then some { s with pc := upd s.pc t .w0 } else none
  | .blockBegin t =>
      if s.pc t = .w0 then some { s with pc := upd s.pc t .wSw } else none
  | .cbEnq t =>
      if s.pc t = .wSw then some { s with cq := s.cq ++ [t], pc := upd s.pc t .wQ, cbh := upd s.cbh t true } else none
  | .cbRelease t =>
      -- runs on the worker that executed the switch, on behalf of `t`; `t` itself may already have
      -- been dequeued and even pushed by a signaler that does not hold the mutex
      if s.cbh t = true ∧ s.holder = some t then some { s with holder := none, cbh := upd s.cbh t false }
      else none
  | .sigStart t =>
      if s.pc t = .idle then some { s with pc := upd s.pc t .sg } else none
  | .sigDeq t x =>
      if s.pc t = .sg then
        match s.cq, x with
        | [], none => some { s with pc := upd s.pc t .idle }
        | y :: rest, some x' =>
            if x' = y then
              some { s with cq := rest, pc := upd s.pc t (.sgP y), deqd := y :: s.deqd,
                            wakes := upd s.wakes y (s.wakes y + 1) }
            else none
        | _, _ => none
      else none
  | .bcStart t =>
      if s.pc t = .idle then
        some { s with pc := upd s.pc t .bc, bsnap := upd s.bsnap t s.cq, bcnt := upd s.bcnt t s.wakes }
      else none
  | .bcDeq t x =>
      if s.pc t = .bc then
        match s.cq, x with
        | [], none => some { s with pc := upd s.pc t .idle }
        | y :: rest, some x' =>
            if x' = y then
              some { s with cq := rest, pc := upd s.pc t (.bcP y), deqd := y :: s.deqd,
                            wakes := upd s.wakes y (s.wakes y + 1) }
            else none
        | _, _ => none
      else none
  | .push t x =>
      if s.pc t = .sgP x then
        some { s with pc := upd (upd s.pc x .wWoken) t .idle, deqd := s.deqd.erase x }
      else if s.pc t = .bcP x then
        some { s with pc := upd (upd s.pc x .wWoken) t .bc, deqd := s.deqd.erase x }
      else none

/-- inside `wait` and not yet handed back to the scheduler -/
def inWait : PC → Bool
  | .w0 | .wSw | .wQ => true
  | _ => false

def carries (p : PC) (x : Tid) : Bool := p = .sgP x || p = .bcP x

end MythVerif.Cond
