import MythVerif.Basic.Upd
import MythVerif.Basic.Run
import MythVerif.Model.JcArith
/-!
Model of `myth_join_counter_wait_body` / `myth_join_counter_dec_body` (src/myth_sync_func.h) with
the blocking discipline (`myth_block_on_queue`, `myth_wake_many_from_queue`), at shared-access
granularity.

* `state` is the C `jc->state`, the packed word `waiters * 2^b + decs` with `b = calc_bits(N)`
  (`JcArith.calcBits`); the fields are extracted exactly as the code does
  (`decsOf N s = s & state_mask`, `waitersOf N s = s >> n_threads_bits`); `N = jc->n_threads` is a
  parameter of `step`, **any** `N ≥ 0`.
* `wait`: read `s`; `decs = N` → return; else CAS `s → s + 2^b` (fail → re-read); block
  (context saved, *then* the callback enqueues the caller); when resumed the code asserts
  `decs = N` and loops, i.e. re-reads and returns (`woken`; a resumed thread that did not see
  `decs = N` would trip the assert: `afail`, proved unreachable).
* `dec`: read `s`; `decs ≥ N` → "excess threads", `exit(1)` (`dexit`); CAS `s → s+1` (fail →
  re-read); if it replaced `decs = N-1` it is the last: it dequeues (spinning on an empty queue)
  exactly `waitersOf N s` threads — the waiter field of the word **it replaced** — and only then
  pushes each to the run queue.
* The sleep queue with its internal spin lock is one atomic FIFO enqueue / dequeue (as in the
  mutex model).  Threads are an unbounded index set; any thread may wait and/or decrement.
* One label = one shared access = one MYTH_VERIF_POINT of the implementation.

Ghost fields (`anns wk ldr rets pushes ndec`) never influence `state q pc` nor enabledness.
-/
namespace MythVerif.JoinCounter
open MythVerif.JcArith

abbrev Tid := Nat

inductive PC where
  | idle                              -- outside any operation on this counter
  | wretry                            -- inside wait: must re-read (lost the CAS)
  | wr (v : Nat)                      -- wait: read `v`, `decs ≠ N`
  | ann                               -- CAS +2^b done: announced, context not yet saved
  | annSw                             -- context saved, callback has not enqueued yet
  | asleep                            -- in the sleep queue (stays so until pushed to a run queue)
  | woken                             -- in a run queue: will assert `decs = N`, re-read and return
  | afail                             -- resumed although `decs ≠ N`: the assert fires
  | dretry                            -- inside dec: must re-read
  | dr (v : Nat)                      -- dec: read `v`, `decs < N`
  | dexit                             -- dec read `decs ≥ N`: "excess threads", exit(1)
  | ddeq (k : Nat) (acc : List Tid)   -- last decrementer: `k` more to dequeue, `acc` dequeued so far
  | dpush (rem : List Tid)            -- all dequeued; `rem` still to be pushed to the run queue
  deriving DecidableEq, Repr

structure St where
  state : Nat
  q : List Tid
  pc : Tid → PC
  -- ghosts
  anns : List Tid          -- announced (CAS +2^b done) but not yet enqueued
  wk : List Tid            -- dequeued by the last decrementer, not yet pushed to a run queue
  ldr : Option Tid         -- the last decrementer while it releases
  rets : Nat               -- number of returns from wait so far
  pushes : Nat             -- number of threads handed to a run queue so far
  ndec : Nat               -- number of decrements performed (successful CAS +1)

def init : St :=
  { state := 0, q := [], pc := fun _ => .idle, anns := [], wk := [], ldr := none, rets := 0, pushes := 0, ndec := 0 }

inductive Lbl where
  | waitRead (t : Tid) (v : Nat)     -- JC_WAIT_READ (returns when `decs = N`)
  | waitCas (t : Tid) (ok : Bool)    -- JC_WAIT_CAS
  | blockBegin (t : Tid)             -- BLOCK_BEGIN
  | cbEnq (t : Tid)                  -- BLOCK_CB_ENQ
  | decRead (t : Tid) (v : Nat)      -- JC_DEC_READ
  | decCas (t : Tid) (ok : Bool)     -- JC_DEC_CAS
  | wakeSpin (t : Tid)               -- SPIN_WAKE_DEQ
  | wakeDeq (t : Tid) (x : Tid)      -- WAKE_DEQ
  | wakePush (t : Tid) (x : Tid)     -- WAKE_PUSH
  deriving DecidableEq, Repr

def Lbl.actor : Lbl → Tid
  | .waitRead t _ | .waitCas t _ | .blockBegin t | .cbEnq t | .decRead t _ | .decCas t _
  | .wakeSpin t | .wakeDeq t _ | .wakePush t _ => t

/-- one shared access of a join counter initialised with `N` -/
def step (N : Nat) (s : St) : Lbl → Option St
  | .waitRead t v =>
      if v = s.state then
        (if s.pc t = .idle ∨ s.pc t = .wretry then
           (if decsOf N v = N then some { s with pc := upd s.pc t .idle, rets := s.rets + 1 }
            else some { s with pc := upd s.pc t (.wr v) })
         else if s.pc t = .woken then
           (if decsOf N v = N then some { s with pc := upd s.pc t .idle, rets := s.rets + 1 }
            else some { s with pc := upd s.pc t .afail })
         else none)
      else none
  | .waitCas t ok =>
      match s.pc t with
      | .wr v =>
          if ok = decide (s.state = v) then
            (if ok then some { s with state := v + 2 ^ calcBits N, pc := upd s.pc t .ann, anns := t :: s.anns }
             else some { s with pc := upd s.pc t .wretry })
          else none
      | _ => none
  | .blockBegin t =>
      if s.pc t = .ann then some { s with pc := upd s.pc t .annSw } else none
  | .cbEnq t =>
      if s.pc t = .annSw then
        some { s with q := s.q ++ [t], pc := upd s.pc t .asleep, anns := s.anns.erase t }
      else none
  | .decRead t v =>
      if v = s.state ∧ (s.pc t = .idle ∨ s.pc t = .dretry) then
        (if decsOf N v ≥ N then some { s with pc := upd s.pc t .dexit }
         else some { s with pc := upd s.pc t (.dr v) })
      else none
  | .decCas t ok =>
      match s.pc t with
      | .dr v =>
          if ok = decide (s.state = v) then
            (if ok then
               (if decsOf N v + 1 = N then
                  (if waitersOf N v = 0 then some { s with state := v + 1, pc := upd s.pc t .idle, ndec := s.ndec + 1 }
                   else some { s with state := v + 1, pc := upd s.pc t (.ddeq (waitersOf N v) []), ldr := some t, ndec := s.ndec + 1 })
                else some { s with state := v + 1, pc := upd s.pc t .idle, ndec := s.ndec + 1 })
             else some { s with pc := upd s.pc t .dretry })
          else none
      | _ => none
  | .wakeSpin t =>
      match s.pc t with
      | .ddeq _ _ => if s.q = [] then some s else none
      | _ => none
  | .wakeDeq t x =>
      match s.pc t with
      | .ddeq (k + 1) acc =>
          (match s.q with
           | y :: rest =>
               if x = y then
                 some { s with q := rest, wk := s.wk ++ [x],
                               pc := upd s.pc t (if k = 0 then .dpush (acc ++ [x]) else .ddeq k (acc ++ [x])) }
               else none
           | [] => none)
      | _ => none
  | .wakePush t x =>
      match s.pc t with
      | .dpush (y :: rem) =>
          if x = y then
            some { s with pc := upd (upd s.pc x .woken) t (if rem = [] then .idle else .dpush rem),
                          wk := s.wk.erase x, pushes := s.pushes + 1,
                          ldr := if rem = [] then none else s.ldr }
          else none
      | _ => none

/-- announced, not yet in the queue -/
def annPc : PC → Bool
  | .ann | .annSw => true
  | _ => false

/-- the last decrementer during its release -/
def ldrPc : PC → Bool
  | .ddeq _ _ | .dpush _ => true
  | _ => false

end MythVerif.JoinCounter
