import MythVerif.Basic.Upd
import MythVerif.Basic.Run
import MythVerif.Generated.WrapTable
/-!
Model of `myth_handle_PTHREAD_MUTEX_INITIALIZER` (src/myth_wrap_pthread.c) at shared-access
granularity: an unbounded set of threads use ONE `pthread_mutex_t` that was never passed to
`pthread_mutex_init` (a `PTHREAD_MUTEX_INITIALIZER` / zero-filled object, or any memory whose
first word is neither of the two magic numbers).  Every wrapped mutex operation
(`pthread_mutex_lock/trylock/timedlock/unlock`) runs the handler first:

```
magic = *magic_p;                                         -- read          (SINIT_READ v)
if (magic != magic_no) {
  if (magic != initializing                               -- skipCas       (SINIT_CAS -1)
      && CAS(magic_p, magic, initializing)) {             -- cas true      (SINIT_CAS 1)
    mi = MYTH_MUTEX_INITIALIZER; mi.magic = initializing;
    *m = mi;                                              -- copyWord × 4, any order (SINIT_COPY)
    myth_rwbarrier();                                     -- fence
    *magic_p = magic_no;                                  -- publish       (SINIT_DONE)
  } else {                                                -- cas false     (SINIT_CAS 0)
    while (*magic_p == initializing) { }                  -- spinRead      (SINIT_WAIT / SINIT_WAITED v)
    myth_assert(*magic_p == magic_no);                    -- assertRead
  }
}
return 0;  /* then myth_mutex_*_body(m) */                -- bodyStep* ; leave
```

The struct assignment `*m = mi` is not atomic: it is modelled as four separate word stores
(attribute, sleep queue, state, magic) in ANY order, so that "nobody looks at a half-written
object" has to be proved, not assumed.  What a thread does to the mutex once the handler has
returned (`myth_mutex_lock_body` …) is abstracted to `bodyStep`: an arbitrary change of the state
word and of the queue (C04 is about those).  The magic numbers are the translator's
(`Gen.Wrap.mutexMagicNo`, `Gen.Wrap.mutexMagicInitializing`).

Ghost fields: `convs` (successful electing CASes), `converter`, `bodySteps` (mutex-body accesses so
far), `pubFresh` (the object was equal to a freshly initialised mutex at the publishing store).
-/
namespace MythVerif.SInit

abbrev Tid := Nat

/-- `myth_mutex_magic_no`: the object is an initialised myth mutex -/
def mNo : Nat := Gen.Wrap.mutexMagicNo
/-- `myth_mutex_magic_no_initializing`: somebody is converting the object -/
def mIni : Nat := Gen.Wrap.mutexMagicInitializing
/-- `MYTH_MUTEX_DEFAULT`, the `attr.type` of `MYTH_MUTEX_INITIALIZER` -/
def dfltType : Nat := Gen.Wrap.mythMutexInitializerType

theorem mNo_ne_mIni : mNo ≠ mIni := by decide

/-- the four words written by `*m = mi` -/
inductive Word where
  | attr | queue | state | magic
  deriving DecidableEq, Repr

inductive PC where
  | idle                      -- not inside a wrapped mutex operation
  | rd (v : Nat)              -- has read the magic word (v ≠ magic_no)
  | won (a q s m : Bool)      -- won the CAS; which words of `*m = mi` are already stored
  | fenced                    -- after myth_rwbarrier, before the publishing store
  | spin                      -- in the wait loop, about to read the magic word
  | chk                       -- left the wait loop, about to evaluate the assertion
  | body                      -- handler returned: inside myth_mutex_*_body
  deriving DecidableEq, Repr

/-- the object and the callers -/
structure St where
  magic : Nat            -- first word (`m->magic`)
  atype : Nat            -- `m->attr.type`
  qEmpty : Bool          -- the sleep queue is the empty queue (lock word 0, head = tail = 0)
  mstate : Nat           -- `m->state`
  pc : Tid → PC
  -- ghosts
  convs : Nat
  converter : Option Tid
  bodySteps : Nat
  pubFresh : Bool

/-- never-initialised memory: first word `z`, the other fields arbitrary -/
def init (z atype0 : Nat) (q0 : Bool) (st0 : Nat) : St :=
  { magic := z, atype := atype0, qEmpty := q0, mstate := st0, pc := fun _ => .idle,
    convs := 0, converter := none, bodySteps := 0, pubFresh := false }

inductive Lbl where
  | read (t : Tid) (v : Nat)            -- the entry read of the magic word
  | skipCas (t : Tid)                   -- read `initializing`: no CAS, go and wait
  | cas (t : Tid) (ok : Bool)           -- CAS(magic_p, value read, initializing)
  | copyWord (t : Tid) (w : Word)       -- one word of `*m = mi`
  | fence (t : Tid)                     -- myth_rwbarrier (all four words stored)
  | publish (t : Tid)                   -- `*magic_p = magic_no`; the handler returns
  | spinRead (t : Tid) (v : Nat)        -- a read in the wait loop; leaves the loop iff v ≠ initializing
  | assertRead (t : Tid) (v : Nat)      -- the read inside myth_assert; the handler returns
  | bodyStep (t : Tid) (st' : Nat) (q' : Bool)   -- an access of myth_mutex_*_body
  | leave (t : Tid)                     -- the wrapped operation returns
  deriving DecidableEq, Repr

def Lbl.actor : Lbl → Tid
  | .read t _ | .skipCas t | .cas t _ | .copyWord t _ | .fence t | .publish t | .spinRead t _
  | .assertRead t _ | .bodyStep t _ _ | .leave t => t

/-- a freshly initialised mutex (`myth_mutex_init(m, 0)` / `MYTH_MUTEX_INITIALIZER`) apart from
    the magic word: default type, empty queue, state 0 -/
def St.fresh (s : St) : Bool := s.atype == dfltType && s.qEmpty && s.mstate == 0

def step (s : St) : Lbl → Option St
  | .read t v =>
      if v = s.magic ∧ s.pc t = .idle then
        (if v = mNo then some { s with pc := upd s.pc t .body }
         else some { s with pc := upd s.pc t (.rd v) })
      else none
  | .skipCas t =>
      match s.pc t with
      | .rd v => if v = mIni then some { s with pc := upd s.pc t .spin } else none
      | _ => none
  | .cas t ok =>
      match s.pc t with
      | .rd v =>
          if v ≠ mIni ∧ ok = decide (s.magic = v) then
            (if ok then
               some { s with magic := mIni, pc := upd s.pc t (.won false false false false),
                             convs := s.convs + 1, converter := some t }
             else some { s with pc := upd s.pc t .spin })
          else none
      | _ => none
  | .copyWord t w =>
      match s.pc t, w with
      | .won false q st m, .attr => some { s with atype := dfltType, pc := upd s.pc t (.won true q st m) }
      | .won a false st m, .queue => some { s with qEmpty := true, pc := upd s.pc t (.won a true st m) }
      | .won a q false m, .state => some { s with mstate := 0, pc := upd s.pc t (.won a q true m) }
      | .won a q st false, .magic => some { s with magic := mIni, pc := upd s.pc t (.won a q st true) }
      | _, _ => none
  | .fence t =>
      if s.pc t = .won true true true true then some { s with pc := upd s.pc t .fenced } else none
  | .publish t =>
      if s.pc t = .fenced then
        some { s with magic := mNo, pc := upd s.pc t .body, pubFresh := s.fresh }
      else none
  | .spinRead t v =>
      if v = s.magic ∧ s.pc t = .spin then
        (if v = mIni then some s else some { s with pc := upd s.pc t .chk })
      else none
  | .assertRead t v =>
      if v = s.magic ∧ s.pc t = .chk then some { s with pc := upd s.pc t .body } else none
  | .bodyStep t st' q' =>
      if s.pc t = .body then some { s with mstate := st', qEmpty := q', bodySteps := s.bodySteps + 1 } else none
  | .leave t =>
      if s.pc t = .body then some { s with pc := upd s.pc t .idle } else none

/-- the thread is between winning the CAS and the publishing store -/
def converting : PC → Bool
  | .won _ _ _ _ | .fenced => true
  | _ => false

def isWin : Lbl → Bool
  | .cas _ true => true
  | _ => false

def isPublish : Lbl → Bool
  | .publish _ => true
  | _ => false

/-- the label lets a thread enter the mutex body (the handler returns) -/
def entersBody : Lbl → Bool
  | .publish _ | .assertRead _ _ => true
  | .read _ v => v == mNo
  | _ => false

/-- steps the converter still has to take before the magic word is `magic_no` -/
def remaining : PC → Nat
  | .won a q s m => (if a then 0 else 1) + (if q then 0 else 1) + (if s then 0 else 1) + (if m then 0 else 1) + 2
  | .fenced => 1
  | _ => 0

end MythVerif.SInit
