import MythVerif.Model.Bulk
/-!
# Model of `mtbb::task_group` (C17)

Transcribed from `src/mtbb/task_group.h` (`TO_MTHREAD_NATIVE`, no profiler):

* `task_list`: an inline head node and heap nodes, each an array `a[capacity]` with a fill
  count `n` (`capacity = TASK_GROUP_INIT_SZ = 8` for every node); `tail` is the last node.
  `add`: `if (tail->n == tail->capacity) new_node(); tail->a[tail->n++] = t`.
  A node is modelled by the list of its `n` filled entries.
* `task_memory_allocator`: chunks `(size, used)`; the head chunk has `TASK_MEMORY_CHUNK_SZ =
  256` inline bytes; `alloc(s)`: `p = tail->p; if (p + s > tail->end) p = new_chunk(s);
  tail->p = p + s; return p`, where a new chunk has `max(s,256)` bytes (`init`: `s <= 256 →
  256`).  A block is `(chunk index, offset, size)`; distinct chunks are distinct objects
  (`new` returns fresh memory — modelled, not verified).
* `task_group_no_prof`: `run(c)` = `mem.alloc(sizeof(callable_task<C>))`, `tasks.add(t)`,
  `t->hthread = myth_create(invoke_task, t)`; `wait()` = `myth_join` of every entry of every
  node in list order, then `tasks.reset(); mem.reset()`.

Core Lean only (linked into `drv_bulk`).
-/
namespace MythVerif.TaskGroup

/-- the two compile-time constants (`TASK_GROUP_INIT_SZ`, `TASK_MEMORY_CHUNK_SZ`) -/
structure Cfg where
  cap : Nat := 8
  chunk : Nat := 256
deriving Repr

abbrev Task := Nat

/-- `task_list`: the filled entries of the nodes before `tail` (head first) and of `tail`
    (`tail == head` when `full = []`) -/
structure TaskList where
  full : List (List Task) := []
  tail : List Task := []
deriving Repr, DecidableEq

def TaskList.init : TaskList := {}

/-- all nodes, head first -/
def TaskList.nodes (tl : TaskList) : List (List Task) := tl.full ++ [tl.tail]

/-- `task_list::add` -/
def TaskList.add (cfg : Cfg) (tl : TaskList) (t : Task) : TaskList :=
  if tl.tail.length = cfg.cap then
    { full := tl.full ++ [tl.tail], tail := [t] }      -- new_node(); a[0] = t; n = 1
  else
    { tl with tail := tl.tail ++ [t] }                 -- a[n] = t; n++

/-- a memory block handed out: chunk index, byte offset in the chunk, size -/
structure Block where
  chunk : Nat
  off : Nat
  size : Nat
deriving Repr, DecidableEq

/-- `task_memory_allocator`: `(size, used)` of the chunks before `tail` and of `tail` -/
structure Mem where
  done : List (Nat × Nat) := []
  tail : Nat × Nat
deriving Repr, DecidableEq

def Mem.init (cfg : Cfg) : Mem := { tail := (cfg.chunk, 0) }

/-- all chunks, head first -/
def Mem.chunks (m : Mem) : List (Nat × Nat) := m.done ++ [m.tail]

/-- `task_memory_allocator::alloc` -/
def Mem.alloc (cfg : Cfg) (m : Mem) (s : Nat) : Mem × Block :=
  if m.tail.2 + s > m.tail.1 then
    -- new_chunk(s): init(s) gives max(s, chunk) bytes; p = ch->p (offset 0); tail->p = p + s
    ({ done := m.done ++ [m.tail], tail := (if s ≤ cfg.chunk then cfg.chunk else s, s) },
     ⟨m.done.length + 1, 0, s⟩)
  else
    ({ m with tail := (m.tail.1, m.tail.2 + s) }, ⟨m.done.length, m.tail.2, s⟩)

/-- `task_group_no_prof` plus ghost fields: the blocks handed out since the last `wait`
    and the number of tasks ever run (task identity) -/
structure TG where
  tasks : TaskList
  mem : Mem
  blocks : List Block := []
  next : Nat := 0
deriving Repr

def TG.init (cfg : Cfg) : TG := { tasks := TaskList.init, mem := Mem.init cfg }

/-- `run(c)` with `sizeof(callable_task<C>) = size`; the new task gets the identity `next` -/
def TG.run (cfg : Cfg) (g : TG) (size : Nat) : TG :=
  let (m, b) := g.mem.alloc cfg size
  { tasks := g.tasks.add cfg g.next, mem := m, blocks := g.blocks ++ [b], next := g.next + 1 }

/-- `wait()`: the tasks joined, in join order, and the state afterwards -/
def TG.wait (cfg : Cfg) (g : TG) : List Task × TG :=
  (g.tasks.nodes.flatten, { tasks := TaskList.init, mem := Mem.init cfg, blocks := [], next := g.next })

/-- a sequence of `run` calls -/
def TG.runs (cfg : Cfg) (g : TG) (sizes : List Nat) : TG := sizes.foldl (TG.run cfg) g

/-- two blocks do not share a byte -/
def Block.disjoint (x y : Block) : Prop :=
  x.chunk ≠ y.chunk ∨ x.off + x.size ≤ y.off ∨ y.off + y.size ≤ x.off

/-- the fork-join structure of `tg.run(t₁); …; tg.run(tₖ); rest; tg.wait()`: every `run` creates
    a thread, `wait` joins them all before anything that follows -/
def usage {ε : Type} : List (Bulk.FJ ε) → Bulk.FJ ε → Bulk.FJ ε
  | [], rest => rest
  | t :: ts, rest => .fork [] t (usage ts rest) []

end MythVerif.TaskGroup
