import MythVerif.Basic.Upd
import MythVerif.Basic.Run
/-!
Life cycle of ONE thread record: finish (`myth_entry_point_cleanup`, `myth_entry_point_1/_2`),
`myth_join_body`, `myth_tryjoin_body` (and `myth_timedjoin_body`, which is tryjoin in a loop),
`myth_detach_body`, as in `myth_sched_func.h`.

The target thread is a distinguished agent (`tpc`); any number of other threads (`Tid := Nat`)
run join / tryjoin / detach against it.  The record's spin lock makes the lock-protected fields
(`join_thread`, `detached`) change in atomic critical sections; `status` (read without the lock
by the join spin and by detach's fast path) and `result` are separate steps.  One label = one
MYTH_VERIF point of the implementation.  Resource releases (`stackFrees`, `descFrees`) count the
implementation's actual free calls.

WellUsed (the property's "reaped exactly once by one of …"): at most one reaping operation is
ever *claimed* for the record: a join, a successful tryjoin/timedjoin, a detach, or creation
with the detach-state attribute (`initDetached`).
-/
namespace MythVerif.Life

abbrev Tid := Nat
abbrev Val := Nat

/-- program counter of the target thread -/
inductive TPc where
  | created                       -- created, start function not yet entered
  | run                           -- start function running
  | fBegin                        -- `myth_entry_point_cleanup` entered (result stored)
  | fRead (w : Option Tid)        -- record locked, `join_thread` read
  | fSwitched (w : Option Tid)    -- final switch away done, own stack released
  | fFreeing                      -- detached: record about to be released by the finisher
  | fDone
  deriving DecidableEq, Repr

/-- program counter of another thread operating on the record -/
inductive RPc where
  | idle
  | jBlock          -- join: locked, target not finished, caller marked BLOCKED
  | jSw             -- join: caller's context saved, callback not yet run
  | asleep          -- join: registered as `join_thread`, record unlocked
  | jSpin           -- join / tryjoin: waits for `status == FREE_READY2`
  | jFree (v : Val) -- read the result `v`, about to release the record
  | dLockW          -- detach: fast check failed, about to lock
  | dSpin           -- detach: found finished under the lock
  | dFree           -- detach: about to release the record
  | done (v : Val)  -- join / tryjoin returned `v`
  | ddone           -- detach returned after releasing the record itself
  | ddoneSet        -- detach returned after marking the (unfinished) thread detached
  deriving DecidableEq, Repr

structure St where
  lock : Option Tid        -- `th->lock` held by this joiner
  tlock : Bool             -- the target itself holds `th->lock`
  fin : Bool               -- `status == FREE_READY2`
  jt : Option Tid          -- `join_thread`
  det : Bool               -- `detached`
  result : Val             -- `th->result`
  tpc : TPc
  pc : Tid → RPc
  -- ghosts
  started : Nat            -- invocations of the start function
  retv : Option Val        -- value returned / passed to myth_exit
  stackFrees : Nat
  descFrees : Nat
  claimed : Bool           -- a reaping operation has been issued (WellUsed)
  jSaved : Tid → Bool      -- joiner's context has been saved
  busy : Nat               -- tryjoin calls that returned EBUSY
  reaper : Option Tid      -- the thread whose reaping operation was claimed
  initDet : Bool           -- created with the detach-state attribute
  rfreed : Bool            -- the reaper has released the record

def init (arg : Val) (detachedAtCreate : Bool) : St :=
  { lock := none, tlock := false, fin := false, jt := none, det := detachedAtCreate, result := arg,
    tpc := .created, pc := fun _ => .idle, started := 0, retv := none, stackFrees := 0,
    descFrees := 0, claimed := detachedAtCreate, jSaved := fun _ => false, busy := 0,
    reaper := none, initDet := detachedAtCreate, rfreed := false }

inductive Lbl where
  | tStart                                  -- start function entered
  | tFinish (v : Val)                       -- returned v / myth_exit(v): FIN_BEGIN
  | tLockRead (w : Option Tid)              -- FIN_LOCKED
  | tStackFree                              -- FIN_STACK_FREE (callback after the final switch)
  | tPublish (d : Bool)                     -- FIN_PUBLISH
  | tDescFree                               -- DESC_FREE by the finisher (detached)
  | jLocked (j : Tid) (f : Bool)            -- JOIN_LOCKED
  | jSwitch (j : Tid)                       -- joiner's context saved
  | jSet (j : Tid)                          -- JOIN_CB_SET
  | jSpin (j : Tid)                         -- SPIN_JOIN_SPIN: observed not yet FREE_READY2
  | jReap (j : Tid) (v : Val)               -- JOIN_REAP
  | descFree (j : Tid)                      -- DESC_FREE by a joiner / detacher
  | tjLocked (j : Tid) (f : Bool)           -- TRYJOIN_LOCKED
  | dFast (j : Tid) (f : Bool)              -- DETACH_FAST
  | dLocked (j : Tid) (f : Bool)            -- DETACH_LOCKED
  deriving DecidableEq, Repr

def lockFree (s : St) : Bool := decide (s.lock = none ∧ s.tlock = false)

def step (s : St) : Lbl → Option St
  | .tStart =>
      if s.tpc = .created then some { s with tpc := .run, started := s.started + 1 } else none
  | .tFinish v =>
      if s.tpc = .run then some { s with tpc := .fBegin, result := v, retv := some v } else none
  | .tLockRead w =>
      if s.tpc = .fBegin ∧ lockFree s = true ∧ w = s.jt then some { s with tlock := true, tpc := .fRead w }
      else none
  | .tStackFree =>
      match s.tpc with
      | .fRead w => some { s with tpc := .fSwitched w, stackFrees := s.stackFrees + 1 }
      | _ => none
  | .tPublish d =>
      match s.tpc with
      | .fSwitched w =>
          if d = s.det then
            (if d then some { s with tlock := false, tpc := .fFreeing }
             else some { s with fin := true, tlock := false, tpc := .fDone,
                                pc := match w with
                                  | some j => upd s.pc j .jSpin      -- the waiter continues in join
                                  | none => s.pc })
          else none
      | _ => none
  | .tDescFree =>
      if s.tpc = .fFreeing then some { s with tpc := .fDone, descFrees := s.descFrees + 1 } else none
  | .jLocked j f =>
      if s.pc j = .idle ∧ lockFree s = true ∧ f = s.fin ∧ s.claimed = false then
        (if f then some { s with pc := upd s.pc j .jSpin, claimed := true, reaper := some j }
         else some { s with lock := some j, pc := upd s.pc j .jBlock, claimed := true, reaper := some j })
      else none
  | .jSwitch j =>
      if s.pc j = .jBlock then some { s with pc := upd s.pc j .jSw, jSaved := upd s.jSaved j true } else none
  | .jSet j =>
      if s.pc j = .jSw ∧ s.lock = some j then
        some { s with jt := some j, lock := none, pc := upd s.pc j .asleep }
      else none
  | .jSpin j =>
      if s.pc j = .jSpin ∧ s.fin = false then some s else none
  | .jReap j v =>
      if s.pc j = .jSpin ∧ s.fin = true ∧ v = s.result then some { s with pc := upd s.pc j (.jFree v) } else none
  | .descFree j =>
      match s.pc j with
      | .jFree v => some { s with pc := upd s.pc j (.done v), descFrees := s.descFrees + 1, rfreed := true }
      | .dFree => some { s with pc := upd s.pc j .ddone, descFrees := s.descFrees + 1, rfreed := true }
      | _ => none
  | .tjLocked j f =>
      if s.pc j = .idle ∧ lockFree s = true ∧ f = s.fin then
        (if f then (if s.claimed = false then some { s with pc := upd s.pc j .jSpin, claimed := true, reaper := some j } else none)
         else some { s with busy := s.busy + 1 })                         -- returns EBUSY
      else none
  | .dFast j f =>
      if s.pc j = .idle ∧ f = s.fin ∧ s.claimed = false then
        (if f then some { s with pc := upd s.pc j .dFree, claimed := true, reaper := some j }
         else some { s with pc := upd s.pc j .dLockW, claimed := true, reaper := some j })
      else none
  | .dLocked j f =>
      if s.pc j = .dLockW ∧ lockFree s = true ∧ f = s.fin then
        (if f then some { s with pc := upd s.pc j .dFree }
         else some { s with det := true, pc := upd s.pc j .ddoneSet })
      else none

end MythVerif.Life
