import MythVerif.Generated.WrapTable
import MythVerif.Generated.Consts
import MythVerif.Model.Attr
/-!
# What the pthread wrappers of MassiveThreads are expected to do (C16, layers 1 and 3)

Hand-written expectation for the **supported subset** named by the property: for every function
the MassiveThreads entry point it must forward to under `myth_should_wrap_pthread()`, with which
arguments in which order, what has to happen before (static-initialiser handling) and how the
result is translated; attribute-object functions always go to the system library (a
`pthread_attr_t` stays a system object and is translated at `pthread_create` time by
`pthread_attr_to_myth`).  `Properties/C16.lean` compares this with the table the translator
extracts from src/myth_wrap_pthread.c on every run.
-/
namespace MythVerif.PthreadSpec
open MythVerif.Gen.Wrap

private def fwd (name : String) (arity : Nat) (fn : String) (args : List Arg)
    (pre : List (String × Nat) := []) (ret : RetMap := .ident) : Entry :=
  { name := name, arity := arity, kind := .forward, pre := pre, mythFn := fn, mythArgs := args, ret := ret,
    realFn := "real_" ++ name, realArgs := List.range arity }

private def pass (name : String) (arity : Nat) : Entry :=
  { name := name, arity := arity, kind := .passthrough, pre := [], mythFn := "", mythArgs := [], ret := .ident,
    realFn := "real_" ++ name, realArgs := List.range arity }

private def sinit : List (String × Nat) := [("myth_handle_PTHREAD_MUTEX_INITIALIZER", 0)]

/-- the expected forwarding of the supported subset -/
def spec : List Entry := [
  -- threads
  fwd "pthread_create" 4 "myth_create_ex_body" [.param 0, .conv "pthread_attr_to_myth" 1, .param 2, .param 3],
  fwd "pthread_exit" 1 "myth_exit_body" [.param 0] [] .noReturn,
  fwd "pthread_join" 2 "myth_join_body" [.param 0, .param 1],
  fwd "pthread_detach" 1 "myth_detach_body" [.param 0],
  fwd "pthread_self" 0 "myth_self_body" [],
  fwd "pthread_equal" 2 "myth_equal_body" [.param 0, .param 1],
  -- attribute objects stay system objects
  pass "pthread_attr_init" 1,
  pass "pthread_attr_destroy" 1,
  pass "pthread_attr_setdetachstate" 2,
  pass "pthread_attr_getdetachstate" 2,
  pass "pthread_attr_setstacksize" 2,
  pass "pthread_attr_getstacksize" 2,
  pass "pthread_mutexattr_init" 1,
  pass "pthread_mutexattr_destroy" 1,
  -- mutexes: every operation on a possibly statically initialised mutex converts it first
  fwd "pthread_mutex_init" 2 "myth_mutex_init_body" [.param 0, .conv "pthread_mutexattr_to_myth" 1],
  fwd "pthread_mutex_destroy" 1 "myth_mutex_destroy_body" [.param 0],
  fwd "pthread_mutex_lock" 1 "myth_mutex_lock_body" [.param 0] sinit,
  fwd "pthread_mutex_trylock" 1 "myth_mutex_trylock_body" [.param 0] sinit,
  fwd "pthread_mutex_unlock" 1 "myth_mutex_unlock_body" [.param 0] sinit,
  -- condition variables
  fwd "pthread_cond_init" 2 "myth_cond_init_body" [.param 0, .conv "pthread_condattr_to_myth" 1],
  fwd "pthread_cond_destroy" 1 "myth_cond_destroy_body" [.param 0],
  fwd "pthread_cond_wait" 2 "myth_cond_wait_body" [.param 0, .param 1],
  fwd "pthread_cond_signal" 1 "myth_cond_signal_body" [.param 0],
  fwd "pthread_cond_broadcast" 1 "myth_cond_broadcast_body" [.param 0],
  -- barriers
  fwd "pthread_barrier_init" 3 "myth_barrier_init_body" [.param 0, .conv "pthread_barrierattr_to_myth" 1, .param 2],
  fwd "pthread_barrier_destroy" 1 "myth_barrier_destroy_body" [.param 0],
  fwd "pthread_barrier_wait" 1 "myth_barrier_wait_body" [.param 0] []
    (.mapElseZero "MYTH_BARRIER_SERIAL_THREAD" "PTHREAD_BARRIER_SERIAL_THREAD"),
  -- spin locks (myth_spin_trylock_body: 1 = acquired, 0 = held)
  fwd "pthread_spin_init" 2 "myth_spin_init_body" [.param 0],
  fwd "pthread_spin_destroy" 1 "myth_spin_destroy_body" [.param 0],
  fwd "pthread_spin_lock" 1 "myth_spin_lock_body" [.param 0] [] .zero,   -- the body returns its retry count
  fwd "pthread_spin_trylock" 1 "myth_spin_trylock_body" [.param 0] [] (.nonzeroToZeroElse "EBUSY"),
  fwd "pthread_spin_unlock" 1 "myth_spin_unlock_body" [.param 0],
  -- once
  fwd "pthread_once" 2 "myth_once_body" [.param 0, .param 1],
  -- thread-specific data
  fwd "pthread_key_create" 2 "myth_key_create_body" [.param 0, .param 1],
  fwd "pthread_key_delete" 1 "myth_key_delete_body" [.param 0],
  fwd "pthread_getspecific" 1 "myth_getspecific_body" [.param 0],
  fwd "pthread_setspecific" 2 "myth_setspecific_body" [.param 0, .param 1],
  -- yield and sleep (myth_nanosleep_body returns the error number)
  fwd "sched_yield" 0 "myth_yield_body" [],
  fwd "sleep" 1 "myth_sleep_body" [.param 0],
  fwd "usleep" 1 "myth_usleep_body" [.param 0],
  fwd "nanosleep" 2 "myth_nanosleep_body" [.param 0, .param 1] [] .errnoMinusOne
]

/-- the supported subset (names) -/
def supported : List String := spec.map (·.name)

/-- entry of the extracted table for a name -/
def lookup (n : String) : Option Entry := table.find? (·.name == n)

/-- the statement skeleton `myth_handle_PTHREAD_MUTEX_INITIALIZER` must have for
    `Model/MutexStaticInit.lean` to be a model of it -/
def handlerShapeSpec : List String := [
  "myth_mutex_t*m=(myth_mutex_t*)pm",
  "volatile int*magic_p=(volatile int*)&m->magic",
  "int magic=*magic_p",
  "if(magic!=myth_mutex_magic_no){",
  "if(magic!=myth_mutex_magic_no_initializing&&__sync_bool_compare_and_swap(magic_p,magic,myth_mutex_magic_no_initializing)){",
  "myth_mutex_t mi=MYTH_MUTEX_INITIALIZER",
  "mi.magic=myth_mutex_magic_no_initializing",
  "*m=mi",
  "myth_rwbarrier()",
  "*magic_p=myth_mutex_magic_no",
  "}else{",
  "while(*magic_p==myth_mutex_magic_no_initializing){",
  "}",
  "myth_assert(*magic_p==myth_mutex_magic_no)",
  "}",
  "}",
  "return 0"
]

/-- the statement skeleton of `pthread_attr_to_myth` that `attrToMyth` below transcribes -/
def attrToMythShapeSpec : List String := [
  "if(!p){",
  "return 0",
  "}else{",
  "int _=myth_thread_attr_init_body(m)",
  "int r=pthread_attr_getdetachstate(p,&m->detachstate)",
  "(void)_",
  "assert(r==0)",
  "r=pthread_attr_getstack(p,&m->stackaddr,&m->stacksize)",
  "assert(r==0)",
  "return m",
  "}"
]

/-- wrapping is on unless `MYTH_WRAP_PTHREAD` is set to something `atoi` maps to 0 -/
def shouldWrapShapeSpec : List String := [
  "static int s_myth_should_wrap_pthread=-1",
  "if(s_myth_should_wrap_pthread==-1){",
  "const char*s=getenv(\"MYTH_WRAP_PTHREAD\")",
  "if(s&&(atoi(s)==0)){",
  "s_myth_should_wrap_pthread=0",
  "}else{",
  "s_myth_should_wrap_pthread=1",
  "}",
  "}",
  "return s_myth_should_wrap_pthread"
]

/-! ## attribute translation -/
open MythVerif.Attr

/-- what the system library reports about a `pthread_attr_t`
    (`pthread_attr_getdetachstate`, `pthread_attr_getstack`) -/
structure PAttr where
  detachstate : Nat
  stackaddr : Nat
  stacksize : Nat

/-- `pthread_attr_to_myth(p, m)` for a non-NULL `p`: `myth_thread_attr_init_body(m)`, then the detach
    state, the stack address and the stack size are overwritten with what the pthread object says -/
def attrToMyth (d : Defaults) (garbage : Field → Option Nat) (p : PAttr) : Raw :=
  (((attrInit d garbage).set .detachstate p.detachstate).set .stackaddr p.stackaddr).set .stacksize p.stacksize

/-- `if (attr && attr->detachstate) new_thread->detached = 1;` in `myth_create_ex_body` -/
def createdDetached (a : Raw) : Option Bool := (a.get .detachstate).map (· != 0)

/-- `stack_size = attr->stacksize`; 0 selects the library's default stack (free list of
    `g_attr.stacksize` blocks), anything else a private block of that size -/
def stackRequest (a : Raw) : Option Nat := a.get .stacksize

/-- a `pthread_attr_t` fresh from `pthread_attr_init` as this C library reports it -/
def defaultPAttr : PAttr :=
  { detachstate := defaultAttrDetachState, stackaddr := defaultAttrStackAddr, stacksize := defaultAttrStackSize }

end MythVerif.PthreadSpec
