/-!
Model of `myth_thread_attr_t` handling: which fields `myth_thread_attr_init_body` writes, which
the public setters write, and which `myth_create_ex_body` reads (`myth_sched_func.h`).  A field
of an attribute object living in arbitrary memory is `none` until something writes it.
-/
namespace MythVerif.Attr

inductive Field where
  | stackaddr | stacksize | guardsize | detachstate | childFirst | customDataSize | customData
  deriving DecidableEq, Repr

/-- raw memory of an attribute object: `none` = never written (indeterminate) -/
structure Raw where
  val : Field → Option Nat

def Raw.get (r : Raw) (f : Field) : Option Nat := r.val f
def Raw.set (r : Raw) (f : Field) (v : Nat) : Raw := ⟨fun g => if f = g then some v else r.val g⟩

instance : CoeFun Raw (fun _ => Field → Option Nat) := ⟨Raw.val⟩

/-- the global defaults `attr_init` copies -/
structure Defaults where
  stacksize : Nat
  guardsize : Nat
  childFirst : Nat

def defaultOf (d : Defaults) : Field → Nat
  | .stackaddr => 0
  | .stacksize => d.stacksize
  | .guardsize => d.guardsize
  | .detachstate => 0
  | .childFirst => d.childFirst
  | .customDataSize => 0
  | .customData => 0

/-- `myth_thread_attr_init_body` of the current source: every field is written -/
def attrInit (d : Defaults) (garbage : Field → Option Nat) : Raw :=
  (((((((⟨garbage⟩ : Raw).set .stackaddr 0).set .stacksize d.stacksize).set .detachstate 0).set .guardsize d.guardsize).set
    .childFirst d.childFirst).set .customDataSize 0).set .customData 0

/-- the pinned snapshot's `attr_init`: the two custom-data fields were not written -/
def attrInitPinned (d : Defaults) (garbage : Field → Option Nat) : Raw :=
  (((((⟨garbage⟩ : Raw).set .stackaddr 0).set .stacksize d.stacksize).set .detachstate 0).set .guardsize d.guardsize).set
    .childFirst d.childFirst

/-- a call of one public setter (`myth_thread_attr_set*`) -/
structure Setter where
  field : Field
  value : Nat

def applySetter (r : Raw) (s : Setter) : Raw := r.set s.field s.value
def applySetters (r : Raw) (ss : List Setter) : Raw := ss.foldl applySetter r

/-- the fields `myth_create_ex_body` reads from a non-NULL attribute object -/
def createReads : List Field := [.stacksize, .customDataSize, .customData, .childFirst, .detachstate]

/-- `id[0] = new_thread` is executed only for a non-NULL `id` (returns where it stored) -/
def createStoresId (idp : Option Nat) : Option Nat := idp

end MythVerif.Attr
