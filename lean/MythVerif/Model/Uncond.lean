import MythVerif.Basic.Upd
import MythVerif.Basic.Run
/-!
Model of `myth_uncond_wait_body` / `myth_uncond_wait_cb` / `myth_uncond_signal_body`
(src/myth_sync_func.h) at shared-access granularity, for one uncondition variable and an unbounded
set of threads, together with the documented usage protocol as an explicit monitor on label
sequences (`WellUsed`).

```
P (waiter)                                         Q (signaler)
1: atomically mark "I am sleeping"     announce    3: atomically mark "none sleeping"       claim
2: myth_uncond_wait(u):                            4: myth_uncond_signal(u):
     next = pop(run queue) …                            to_wake = u->th;
     (BLOCK_BEGIN)                     blockBegin       while (!to_wake) to_wake = u->th;     sigSpin
     myth_swap_context_withcall(…)                      (UC_SIG_READ)                         sigRead
       -- P's context is saved, then on the             to_wake->env = env; u->th = 0;        sigClear
       -- next context's stack:                         push(run queue, to_wake)              sigPush
       (BLOCK_CB_BEGIN)                cbBegin          return                                sigRet
       u->th = cur  (BLOCK_CB_ENQ)     cbPublish
     … asleep …
     resumed by a worker that took P
     from a run queue; wait returns    resume
```

`announce` / `claim` are the user-level protocol steps (lines 1 and 3 of the documentation in
include/myth/myth.h) fused with the entry into `myth_uncond_wait` / `myth_uncond_signal`: between
the user-level atomic step and the first access of the library call the thread touches nothing
shared.  The library part (`step`) does NOT enforce the protocol: any idle thread may announce and
wait, any idle thread may signal at any time — `proto` below is the protocol, and the C08 theorems
are about label sequences accepted by both.
-/
namespace MythVerif.Uncond

abbrev Tid := Nat

inductive PC where
  | idle                  -- not inside wait or signal on this variable
  | ann                   -- waiter: announced at user level, inside wait, next context not yet chosen
  | sw                    -- waiter: chose the next context, switching (context NOT yet saved)
  | cb                    -- waiter: context saved; the callback is running on the next context's stack
  | asleep                -- waiter: `u->th = me` published (or already taken by the signaler), not yet pushed
  | runnable              -- waiter: pushed to a run queue by the signaler, not yet resumed
  | sg                    -- signaler: claimed at user level, inside signal, (re-)reading `u->th`
  | sc (x : Tid)          -- signaler: read `u->th = x`
  | sp (x : Tid)          -- signaler: stored `u->th = 0`, `x` not yet pushed
  | sd                    -- signaler: pushed, about to return
  deriving DecidableEq, Repr

structure St where
  th : Option Tid            -- u->th
  runq : List Tid            -- threads this variable's signalers pushed to a run queue, not yet resumed
  pc : Tid → PC
  ctxSaved : Tid → Bool      -- the thread's context is saved (it is not running on any worker)

def init : St := { th := none, runq := [], pc := fun _ => .idle, ctxSaved := fun _ => false }

inductive Lbl where
  | announce (t : Tid)            -- user level: mark "I am sleeping"; enters myth_uncond_wait
  | blockBegin (t : Tid)          -- chose the next context, starts the context switch
  | cbBegin (t : Tid)             -- context saved; callback entered
  | cbPublish (t : Tid)           -- u->th = t
  | resume (t : Tid)              -- a worker resumes t from a run queue; myth_uncond_wait returns
  | claim (t : Tid)               -- user level: saw the mark and cleared it; enters myth_uncond_signal
  | sigSpin (t : Tid)             -- read u->th = 0
  | sigRead (t : Tid) (x : Tid)   -- read u->th = x
  | sigClear (t : Tid)            -- u->th = 0
  | sigPush (t : Tid) (x : Tid)   -- push x to the run queue
  | sigRet (t : Tid)              -- myth_uncond_signal returns
  deriving DecidableEq, Repr

def Lbl.actor : Lbl → Tid
  | .announce t | .blockBegin t | .cbBegin t | .cbPublish t | .resume t | .claim t | .sigSpin t
  | .sigRead t _ | .sigClear t | .sigPush t _ | .sigRet t => t

/-- one step of the library (and of the callers' sequential control flow).
    `none` = this access (with this observed value) is impossible here. -/
def step (s : St) : Lbl → Option St
  | .announce t =>
      if s.pc t = .idle then some { s with pc := upd s.pc t .ann } else none
  | .blockBegin t =>
      if s.pc t = .ann then some { s with pc := upd s.pc t .sw } else none
  | .cbBegin t =>
      if s.pc t = .sw then some { s with pc := upd s.pc t .cb, ctxSaved := upd s.ctxSaved t true } else none
  | .cbPublish t =>
      if s.pc t = .cb then some { s with th := some t, pc := upd s.pc t .asleep } else none
  | .resume t =>
      if s.pc t = .runnable ∧ t ∈ s.runq then
        some { s with runq := s.runq.erase t, pc := upd s.pc t .idle, ctxSaved := upd s.ctxSaved t false }
      else none
  | .claim t =>
      if s.pc t = .idle then some { s with pc := upd s.pc t .sg } else none
  | .sigSpin t =>
      if s.pc t = .sg ∧ s.th = none then some s else none
  | .sigRead t x =>
      if s.pc t = .sg ∧ s.th = some x then some { s with pc := upd s.pc t (.sc x) } else none
  | .sigClear t =>
      match s.pc t with
      | .sc x => some { s with th := none, pc := upd s.pc t (.sp x) }
      | _ => none
  | .sigPush t x =>
      -- pushing a thread that is not asleep with a saved context is not a step of this model:
      -- `C08_progress` shows the branch is never disabled under the protocol
      if s.pc t = .sp x ∧ s.pc x = .asleep ∧ s.ctxSaved x = true then
        some { s with runq := s.runq ++ [x], pc := upd (upd s.pc x .runnable) t .sd }
      else none
  | .sigRet t =>
      if s.pc t = .sd then some { s with pc := upd s.pc t .idle } else none

/-! ### the usage protocol, as a monitor on label sequences -/

/-- what the users of the variable know about the current rendezvous (e.g. the "sleeping" bit of
    tests/myth_uncond_signal.c, plus whether the thread that cleared it is still inside signal) -/
inductive Phase where
  | free                          -- nobody may be blocking: no announcement outstanding
  | announced (w : Tid)           -- w marked "I am sleeping"; nobody has claimed it yet
  | claimed (w q : Tid)           -- q saw w's mark and cleared it: q signals (exactly once); neither has
                                  --   w returned from wait nor q from signal
  deriving DecidableEq, Repr

/-- The protocol constrains only the two user-level steps:
    * a thread announces only when no rendezvous is in flight: nobody else is announced, and the
      previous rendezvous is over as far as its users can tell — its waiter has returned from
      `myth_uncond_wait` or its signaler has returned from `myth_uncond_signal` ("there can be only
      one thread blocking on a single myth_uncond_t variable at the same time");
    * a thread claims (and then signals) only after a waiter announced, and only one thread does.
    It never refuses a library step; it only observes the two user-visible returns (`resume`,
    `sigRet`) that end a rendezvous. -/
def proto (p : Phase) : Lbl → Option Phase
  | .announce w => if p = .free then some (.announced w) else none
  | .claim q => match p with
      | .announced w => some (.claimed w q)
      | _ => none
  | .resume t => match p with
      | .claimed w _ => if t = w then some .free else some p
      | _ => some p
  | .sigRet t => match p with
      | .claimed _ q => if t = q then some .free else some p
      | _ => some p
  | _ => some p

/-- the label sequence follows the documented protocol -/
def WellUsed (ls : List Lbl) : Prop := ∃ p, runs proto .free ls = some p

/-- library and protocol monitor side by side -/
def pstep (sp : St × Phase) (l : Lbl) : Option (St × Phase) :=
  match step sp.1 l, proto sp.2 l with
  | some s', some p' => some (s', p')
  | _, _ => none

def pinit : St × Phase := (init, .free)

/-- a busy-wait iteration (changes nothing) -/
def Lbl.isSpin : Lbl → Bool
  | .sigSpin _ => true
  | _ => false

/-- the thread's context is saved and it runs nowhere -/
def suspended : PC → Bool
  | .cb | .asleep | .runnable => true
  | _ => false

/-- inside `myth_uncond_wait` -/
def inWait : PC → Bool
  | .ann | .sw | .cb | .asleep | .runnable => true
  | _ => false

/-- inside `myth_uncond_signal` before the push -/
def inSignal : PC → Bool
  | .sg | .sc _ | .sp _ => true
  | _ => false

/-- not involved in the rendezvous in flight: idle, a signaler of an earlier rendezvous about to
    return, or a waiter of an earlier rendezvous that was pushed and has not been resumed yet -/
def quiet : PC → Bool
  | .idle | .sd | .runnable => true
  | _ => false

end MythVerif.Uncond
