/-!
Model of the DAG Recorder's record-time bookkeeping (`src/profiler/dag_recorder_inl.h`):
`dr_end_interval_`, the cursor (`est`, `first_ready_t`, `in_edge_kind`) a task carries from one
interval to the next (`dr_start_task__`, `dr_return_from_*__`), `dr_accumulate_stats`,
`dr_collapse_subgraph`, `dr_summarize_section_or_task` with its three contraction policies and
the budget walk `dr_prune_nodes_norec`.

An execution is a well-nested tree (`task ::= (section | other)* end`,
`section ::= (section | create task | other)* wait`) whose leaves carry the RAW inputs of the
recorder (time stamps, worker, source positions).  Everything else (`est`, `t_1`, `t_inf`, counts …)
is computed.  Clocks are `Nat` (the C code uses unsigned 64-bit arithmetic; real time stamps are
causal and far from overflow, so no wrap-around occurs), `worker = -1` is "several workers".
PAPI counters and `cpu` are not modelled (papi_on = 0, record_cpu = 0).

`Variant.pinned` is the code of the pinned snapshot, `Variant.fixed` the current code after the
three repairs (other_cont edges counted; a child's end edge counted in the creating section;
`min_node_count` reset by `dr_collapse_subgraph`).
-/
namespace MythVerif.DagRec


/-- `dr_dag_node_kind_t` -/
inductive NKind where
  | createTask | waitTasks | other | endTask | section | task
  deriving DecidableEq, Repr, Inhabited

def NKind.toNat : NKind → Nat
  | .createTask => 0 | .waitTasks => 1 | .other => 2 | .endTask => 3 | .section => 4 | .task => 5

/-- `dr_dag_edge_kind_t` -/
inductive EKind where
  | end_ | create | createCont | waitCont | otherCont
  deriving DecidableEq, Repr, Inhabited

def EKind.toNat : EKind → Nat
  | .end_ => 0 | .create => 1 | .createCont => 2 | .waitCont => 3 | .otherCont => 4

inductive Variant where
  | pinned | fixed
  deriving DecidableEq, Repr, Inhabited

/-- `logical_node_counts[0..3]` -/
@[ext] structure NC where
  create : Nat := 0
  wait : Nat := 0
  other : Nat := 0
  endT : Nat := 0
  deriving DecidableEq, Repr, Inhabited

/-- `logical_edge_counts[0..4]`, also used for `t_ready[0..4]` -/
@[ext] structure EC where
  end_ : Nat := 0
  create : Nat := 0
  createCont : Nat := 0
  waitCont : Nat := 0
  otherCont : Nat := 0
  deriving DecidableEq, Repr, Inhabited

instance : Add NC := ⟨fun a b => ⟨a.create + b.create, a.wait + b.wait, a.other + b.other, a.endT + b.endT⟩⟩
instance : Add EC := ⟨fun a b => ⟨a.end_ + b.end_, a.create + b.create, a.createCont + b.createCont,
  a.waitCont + b.waitCont, a.otherCont + b.otherCont⟩⟩

@[simp] theorem NC.add_create (a b : NC) : (a + b).create = a.create + b.create := rfl
@[simp] theorem NC.add_wait (a b : NC) : (a + b).wait = a.wait + b.wait := rfl
@[simp] theorem NC.add_other (a b : NC) : (a + b).other = a.other + b.other := rfl
@[simp] theorem NC.add_endT (a b : NC) : (a + b).endT = a.endT + b.endT := rfl
@[simp] theorem EC.add_end (a b : EC) : (a + b).end_ = a.end_ + b.end_ := rfl
@[simp] theorem EC.add_create (a b : EC) : (a + b).create = a.create + b.create := rfl
@[simp] theorem EC.add_createCont (a b : EC) : (a + b).createCont = a.createCont + b.createCont := rfl
@[simp] theorem EC.add_waitCont (a b : EC) : (a + b).waitCont = a.waitCont + b.waitCont := rfl
@[simp] theorem EC.add_otherCont (a b : EC) : (a + b).otherCont = a.otherCont + b.otherCont := rfl

def NC.single : NKind → NC
  | .createTask => { create := 1 } | .waitTasks => { wait := 1 } | .other => { other := 1 }
  | .endTask => { endT := 1 } | _ => {}

def NC.total (c : NC) : Nat := c.create + c.wait + c.other + c.endT

def EC.single (k : EKind) (v : Nat) : EC :=
  match k with
  | .end_ => { end_ := v } | .create => { create := v } | .createCont => { createCont := v }
  | .waitCont => { waitCont := v } | .otherCont => { otherCont := v }

def EC.get (c : EC) : EKind → Nat
  | .end_ => c.end_ | .create => c.create | .createCont => c.createCont
  | .waitCont => c.waitCont | .otherCont => c.otherCont

structure Pos where
  file : Nat := 0          -- identity of a source-file name
  line : Nat := 0
  deriving DecidableEq, Repr, Inhabited

/-- `dr_clock_pos` (without counters / cpu) -/
structure ClockPos where
  t : Nat := 0
  worker : Int := 0
  pos : Pos := {}
  deriving DecidableEq, Repr, Inhabited

/-- the part of `dr_dag_node_info` that does not depend on how the DAG is contracted -/
structure Core where
  start : ClockPos := {}
  end_ : ClockPos := {}
  est : Nat := 0
  t1 : Nat := 0
  tinf : Nat := 0
  firstReadyT : Nat := 0
  lastStartT : Nat := 0
  tReady : EC := {}
  nc : NC := {}
  ec : EC := {}
  nChild : Nat := 0
  worker : Int := 0
  kind : NKind := .other
  inEdgeKind : EKind := .create
  deriving DecidableEq, Repr, Inhabited

/-- `dr_dag_node_info` -/
structure Info where
  c : Core := {}
  cur : Nat := 1           -- cur_node_count
  min : Nat := 1           -- min_node_count
  deriving DecidableEq, Repr, Inhabited

/-- what the instrumentation calls supply for one interval: `dr_set_start_info` at its start
    (`spos`), the `dr_enter_*` / `dr_end_task` call at its end (`epos`) -/
structure Raw where
  startT : Nat := 0
  endT : Nat := 0
  worker : Nat := 0
  spos : Pos := {}
  epos : Pos := {}
  deriving DecidableEq, Repr, Inhabited

/-- the running state of a task between two intervals: `t->info.est`, `t->info.first_ready_t`,
    `t->info.in_edge_kind` -/
structure Cursor where
  est : Nat := 0
  readyT : Nat := 0
  ek : EKind := .create
  deriving DecidableEq, Repr, Inhabited

mutual
/-- a node of the execution tree -/
inductive Tree where
  | ival (k : NKind) (r : Raw)                 -- wait_tasks / other / end_task interval
  | create (r : Raw) (child : Tree)            -- create_task interval and the task it created
  | group (k : NKind) (children : Forest)      -- section or task
/-- the children of a section or task, in program order -/
inductive Forest where
  | nil
  | cons (t : Tree) (rest : Forest)
end

def dmeet (x y : Int) : Int := if x = y then x else -1

/-- `dr_end_interval_` -/
def endInterval (k : NKind) (r : Raw) (c : Cursor) : Info :=
  { c := { start := ⟨r.startT, r.worker, r.spos⟩, end_ := ⟨r.endT, r.worker, r.epos⟩,
           est := c.est, t1 := r.endT - r.startT, tinf := r.endT - r.startT,
           firstReadyT := c.readyT, lastStartT := r.startT,
           tReady := EC.single c.ek (r.startT - c.readyT),
           nc := NC.single k, ec := {}, nChild := 0, worker := r.worker, kind := k,
           inEdgeKind := c.ek },
    cur := 1, min := 1 }

/-- what a parent reads of one of its children: the child's `info` and, for a `create_task`
    node, the `info` of the created task -/
structure View where
  i : Info
  child : Option Info := none
  deriving Repr, Inhabited

/-- `dr_cur_nodes_below` -/
def View.curBelow (x : View) : Nat :=
  match x.i.c.kind, x.child with
  | .createTask, some c => 1 + c.cur
  | _, _ => x.i.cur

/-- state of the loop of `dr_accumulate_stats`: `s->info` and the local `t_inf` -/
structure Acc where
  s : Info
  tinfMax : Nat := 0

/-- one iteration of the loop over `s->subgraphs` (`hasNext` = `x->next != 0`) -/
def accStep (v : Variant) (a : Acc) (x : View) (hasNext : Bool) : Acc :=
  let s := a.s
  let sc : Core := { s.c with
    t1 := s.c.t1 + x.i.c.t1, tinf := s.c.tinf + x.i.c.tinf,
    tReady := s.c.tReady + x.i.c.tReady, worker := dmeet s.c.worker x.i.c.worker,
    nc := s.c.nc + x.i.c.nc, ec := s.c.ec + x.i.c.ec }
  let s : Info := { c := sc, cur := s.cur + x.i.cur, min := s.min + x.i.min }
  match x.i.c.kind with
  | .createTask =>
    match x.child with
    | none => { a with s := s }           -- `dr_check(c)`: never happens for a finished section
    | some c =>
      let ec1 : EC := { s.c.ec with create := s.c.ec.create + 1, createCont := s.c.ec.createCont + 1,
                                    end_ := if v = .fixed then s.c.ec.end_ + 1 else s.c.ec.end_ }
      let sc : Core := { s.c with
        ec := ec1 + c.c.ec, nChild := s.c.nChild + 1,
        end_ := { s.c.end_ with t := Nat.max c.c.end_.t s.c.end_.t },
        lastStartT := Nat.max c.c.lastStartT s.c.lastStartT,
        t1 := s.c.t1 + c.c.t1, tReady := s.c.tReady + c.c.tReady,
        worker := dmeet s.c.worker c.c.worker, nc := s.c.nc + c.c.nc }
      { s := { c := sc, cur := s.cur + c.cur, min := s.min + c.min },
        tinfMax := Nat.max (s.c.tinf + c.c.tinf) a.tinfMax }
  | .section =>
    if hasNext then
      let e : EC := { s.c.ec with waitCont := s.c.ec.waitCont + 1,
                                  end_ := if v = .pinned then s.c.ec.end_ + x.i.c.nChild else s.c.ec.end_ }
      { a with s := { s with c := { s.c with ec := e } } }
    else { a with s := s }
  | .other =>
    if hasNext && v == .fixed then
      { a with s := { s with c := { s.c with ec := { s.c.ec with otherCont := s.c.ec.otherCont + 1 } } } }
    else { a with s := s }
  | _ => { a with s := s }

def accLoop (v : Variant) : Acc → List View → Acc
  | a, [] => a
  | a, x :: rest => accLoop v (accStep v a x (!rest.isEmpty)) rest

/-- the initialisation part of `dr_accumulate_stats` (`first`, `last` = first / last subgraph) -/
def accInit (k : NKind) (first last : View) : Info :=
  { c := { start := first.i.c.start, end_ := last.i.c.end_, worker := first.i.c.worker,
           est := first.i.c.est, inEdgeKind := first.i.c.inEdgeKind,
           firstReadyT := first.i.c.firstReadyT, lastStartT := last.i.c.start.t,
           t1 := 0, tinf := 0, tReady := {}, nc := {}, ec := {}, nChild := 0, kind := k },
    cur := 1, min := 1 }

/-- the final part of `dr_accumulate_stats` -/
def accFinish (a : Acc) : Info :=
  { c := { a.s.c with tinf := Nat.max a.tinfMax a.s.c.tinf },
    cur := a.s.cur, min := if a.s.c.worker ≠ -1 then 1 else a.s.min }

/-- `dr_accumulate_stats(s)` for a section / task `s` of kind `k` with children `xs` -/
def accumulate (v : Variant) (k : NKind) (xs : List View) : Info :=
  match xs with
  | [] => { c := { kind := k } }                  -- `dr_check(!empty)`: never happens
  | first :: _ =>
    accFinish (accLoop v { s := accInit k first (xs.getLast?.getD first), tinfMax := 0 } xs)

/-- one iteration of the loop over the waited children in `dr_return_from_wait_tasks__` -/
def rfwStep (cur : Cursor) (x : View) : Cursor :=
  match x.i.c.kind, x.child with
  | .createTask, some ct =>
    let cur := if cur.est < ct.c.est + ct.c.tinf then { cur with est := ct.c.est + ct.c.tinf } else cur
    if cur.readyT < ct.c.end_.t then { cur with readyT := ct.c.end_.t, ek := .end_ } else cur
  | _, _ => cur

/-- `dr_return_from_wait_tasks__`: the cursor of the task after the section with children `xs` -/
def returnFromWait (xs : List View) : Cursor :=
  match xs.getLast? with
  | none => {}
  | some p =>
    xs.foldl rfwStep { est := p.i.c.est + p.i.c.tinf, readyT := p.i.c.end_.t, ek := .waitCont }

/-- cursor after returning from the interval `i` (`dr_return_from_create_task__` /
    `dr_return_from_other__`), and the cursor a created task starts with (`dr_start_task__`) -/
def cursorAfter (i : Info) (ek : EKind) : Cursor :=
  { est := i.c.est + i.c.tinf, readyT := i.c.end_.t, ek := ek }

/-! ### the pure bottom-up evaluation (no contraction): what every parent reads -/

mutual
/-- the `View` of a tree node started with cursor `c`, and the cursor after it -/
def viewTree (v : Variant) : Tree → Cursor → View × Cursor
  | .ival k r, c =>
    let i := endInterval k r c
    ({ i := i }, if k = .other then cursorAfter i .otherCont else c)
  | .create r child, c =>
    let i := endInterval .createTask r c
    let (vc, _) := viewTree v child (cursorAfter i .create)
    ({ i := i, child := some vc.i }, cursorAfter i .createCont)
  | .group k f, c =>
    let (xs, _) := viewForest v f c
    ({ i := accumulate v k xs }, if k = .section then returnFromWait xs else c)
def viewForest (v : Variant) : Forest → Cursor → List View × Cursor
  | .nil, c => ([], c)
  | .cons t rest, c =>
    let (x, c1) := viewTree v t c
    let (xs, c2) := viewForest v rest c1
    (x :: xs, c2)
end

/-- the cursor of the root task: `dr_start_task__(0, …)` -/
def rootCursor (startClock : Nat) : Cursor := { est := 0, readyT := startClock, ek := .create }

/-! ### the in-memory DAG and the contraction policies -/

mutual
/-- `dr_dag_node`: the growing / shrinking in-memory DAG -/
inductive DNode where
  | ival (i : Info)
  | create (i : Info) (child : DNode)
  | group (i : Info) (children : DList)       -- `children = nil` after a collapse
inductive DList where
  | nil
  | cons (d : DNode) (rest : DList)
end

def DNode.info : DNode → Info
  | .ival i => i | .create i _ => i | .group i _ => i

def DNode.view : DNode → View
  | .ival i => { i := i }
  | .create i ch => { i := i, child := some ch.info }
  | .group i _ => { i := i }

def DList.views : DList → List View
  | .nil => []
  | .cons d rest => d.view :: rest.views

def DList.length : DList → Nat
  | .nil => 0
  | .cons _ rest => rest.length + 1

/-- `dr_cur_nodes_below` / `dr_min_nodes_below` -/
def DNode.curBelow : DNode → Nat
  | .create i ch => if i.c.kind = .createTask then 1 + ch.info.cur else i.cur
  | d => d.info.cur
def DNode.minBelow : DNode → Nat
  | .create i ch => if i.c.kind = .createTask then 1 + ch.info.min else i.min
  | d => d.info.min

def DList.minNodes : DList → Nat
  | .nil => 0
  | .cons d rest => d.minBelow + rest.minNodes

mutual
/-- `dr_check_cur_node_count`: the number of materialised nodes below (and including) a node -/
def DNode.count : DNode → Nat
  | .ival _ => 1
  | .create _ ch => 1 + ch.count
  | .group _ ds => 1 + ds.count
def DList.count : DList → Nat
  | .nil => 0
  | .cons d rest => d.count + rest.count
end

/-- the contraction options of `dr_options` -/
structure Opts where
  uncollapseMin : Nat := 0
  collapseMax : Nat := 0
  collapseMaxCount : Nat := 0
  nodeCountTarget : Nat := 0
  pruneThreshold : Nat := 0
  deriving Repr, Inhabited

/-- `dr_collapse_subgraph` -/
def collapse (v : Variant) (i : Info) : DNode :=
  .group { i with cur := 1, min := if v = .fixed then 1 else i.min } .nil

mutual
/-- `dr_prune_nodes_norec(S, x, budget)` (the explicit stack of the C code is the call stack
    here); budgets are C `long`s and may become negative, `/` is C's truncating division -/
def pruneNode (v : Variant) : DNode → Int → DNode
  | .ival i, _ => .ival i
  | .create i ch, budget => .create i (pruneNode v ch (budget - 1))
  | .group i ds, budget =>
    if (i.cur : Int) ≤ budget then .group i ds                       -- within budget
    else if i.min ≥ i.cur then .group i ds                           -- already minimum
    else if budget < (ds.minNodes : Int) + 1 ∧ i.min = 1 then collapse v i
    else
      let (ds', left) := pruneList v ds (budget - 1) ((i.cur : Int) - 1)
      .group { i with cur := (budget - left).toNat } ds'
/-- the loop over the children: `budgetLeft`, `nodesLeft` of the stack entry; returns the pruned
    children and the final `budget_left` -/
def pruneList (v : Variant) : DList → Int → Int → DList × Int
  | .nil, budgetLeft, _ => (.nil, budgetLeft)
  | .cons d rest, budgetLeft, nodesLeft =>
    let nodesCh : Int := d.curBelow
    let b := Int.tdiv (budgetLeft * nodesCh) nodesLeft
    let d' := pruneNode v d b
    let (rest', left) := pruneList v rest (budgetLeft - (d'.curBelow : Int)) (nodesLeft - nodesCh)
    (.cons d' rest', left)
end

/-- `dr_summarize_section_or_task` after `dr_accumulate_stats` computed `i` for the group with
    in-memory children `ds` -/
def summarize (v : Variant) (o : Opts) (i : Info) (ds : DList) : DNode :=
  if o.nodeCountTarget ≠ 0 then
    if i.cur > o.pruneThreshold then pruneNode v (.group i ds) o.nodeCountTarget else .group i ds
  else if o.collapseMaxCount ≠ 0 then
    if i.c.nc.total < o.collapseMaxCount then collapse v i else .group i ds
  else if i.c.end_.t - i.c.start.t < o.uncollapseMin
       ∨ (i.c.worker ≠ -1 ∧ i.c.end_.t - i.c.start.t < o.collapseMax) then collapse v i
  else .group i ds

/-- a contraction policy in general: anything that, given the freshly accumulated `info` and the
    in-memory children, produces the node to keep -/
abbrev Policy := Info → DList → DNode

mutual
/-- the recorder: builds the in-memory DAG of a tree under a contraction policy -/
def recTree (v : Variant) (pol : Policy) : Tree → Cursor → DNode × Cursor
  | .ival k r, c =>
    let i := endInterval k r c
    (.ival i, if k = .other then cursorAfter i .otherCont else c)
  | .create r child, c =>
    let i := endInterval .createTask r c
    let (dc, _) := recTree v pol child (cursorAfter i .create)
    (.create i dc, cursorAfter i .createCont)
  | .group k f, c =>
    let (ds, _) := recForest v pol f c
    let xs := ds.views
    (pol (accumulate v k xs) ds, if k = .section then returnFromWait xs else c)
def recForest (v : Variant) (pol : Policy) : Forest → Cursor → DList × Cursor
  | .nil, c => (.nil, c)
  | .cons t rest, c =>
    let (d, c1) := recTree v pol t c
    let (ds, c2) := recForest v pol rest c1
    (.cons d ds, c2)
end

/-- the policy that never contracts -/
def keepAll : Policy := fun i ds => .group i ds

/-- `dr_start__ … dr_stop__` on a whole execution -/
def record (v : Variant) (o : Opts) (startClock : Nat) (t : Tree) : DNode :=
  (recTree v (summarize v o) t (rootCursor startClock)).1

/-! ### the edge totals `gen_stat.c` reports for a contracted DAG (tree-level account)

`dr_calc_edges` adds the logical edge counts of every collapsed section / task and counts the
explicit edges; the explicit edges are those `dr_pi_dag_enum_edges` emits for the materialised
sections / tasks: one edge from every non-last child to its successor and, for every create
node of a materialised section, a `create` and an `end` edge. -/

/-- the explicit edge from a non-last child of this kind to its successor -/
def contOf : NKind → EC
  | .createTask => ⟨0, 0, 1, 0, 0⟩
  | .other => ⟨0, 0, 0, 0, 1⟩
  | .section => ⟨0, 0, 0, 1, 0⟩
  | _ => {}

/-- the explicit `create` and `end` edges of a create node of a materialised section -/
def createOwn (pk ck : NKind) : EC :=
  if pk = .section ∧ ck = .createTask then ⟨1, 1, 0, 0, 0⟩ else {}

def DList.isNil : DList → Bool
  | .nil => true
  | .cons _ _ => false

mutual
/-- edges reported for the subgraph below a node: logical counts of collapsed nodes plus explicit edges -/
def totN : DNode → EC
  | .ival _ => {}
  | .create _ ch => totN ch
  | .group i ds => if ds.isNil then i.c.ec else totL i.c.kind ds
def totL (pk : NKind) : DList → EC
  | .nil => {}
  | .cons d r => totN d + createOwn pk d.info.c.kind + (if r.isNil then {} else contOf d.info.c.kind) + totL pk r
end

/-! ### the flat interval list and the independent specification of the totals -/

/-- one recorded interval: kind and raw stamps -/
structure Leaf where
  kind : NKind
  r : Raw
  deriving Repr, Inhabited

mutual
/-- the complete uncontracted sequence of intervals, in program order -/
def leavesTree : Tree → List Leaf
  | .ival k r => [⟨k, r⟩]
  | .create r child => ⟨.createTask, r⟩ :: leavesTree child
  | .group _ f => leavesForest f
def leavesForest : Forest → List Leaf
  | .nil => []
  | .cons t rest => leavesTree t ++ leavesForest rest
end

def Leaf.dur (l : Leaf) : Nat := l.r.endT - l.r.startT

/-- work = sum of all interval lengths -/
def flatWork (ls : List Leaf) : Nat := (ls.map Leaf.dur).sum

def flatCount (k : NKind) (ls : List Leaf) : Nat := ls.countP (fun l => l.kind = k)

def flatNC (ls : List Leaf) : NC :=
  ⟨flatCount .createTask ls, flatCount .waitTasks ls, flatCount .other ls, flatCount .endTask ls⟩

/-- edges of the uncontracted DAG by kind: every create interval has a `create` edge to the first
    interval of its child, a `create_cont` edge to its successor, and its child's last interval an
    `end` edge to the continuation after the enclosing section's wait; every wait interval has a
    `wait_cont` edge, every other interval an `other_cont` edge, to its successor -/
def flatEC (ls : List Leaf) : EC :=
  ⟨flatCount .createTask ls, flatCount .createTask ls, flatCount .createTask ls,
   flatCount .waitTasks ls, flatCount .other ls⟩

mutual
/-- the leaf `Info`s as the recorder computes them (top-down `est` propagation) -/
def leafInfosTree (v : Variant) : Tree → Cursor → List Info
  | .ival k r, c => [endInterval k r c]
  | .create r child, c =>
    let i := endInterval .createTask r c
    i :: leafInfosTree v child (cursorAfter i .create)
  | .group _ f, c => leafInfosForest v f c
def leafInfosForest (v : Variant) : Forest → Cursor → List Info
  | .nil, _ => []
  | .cons t rest, c => leafInfosTree v t c ++ leafInfosForest v rest (viewTree v t c).2
end

/-- latest earliest-finish time over a list of leaf infos -/
def maxFinish : List Info → Nat
  | [] => 0
  | i :: rest => Nat.max (i.c.est + i.c.t1) (maxFinish rest)

/-! ### well-nestedness (the grammar) -/

/-- the closing interval of a task (`end_task`) / of a section (`wait_tasks`) -/
def isLast (inTask : Bool) : Tree → Bool
  | .ival k _ => if inTask then k == .endTask else k == .waitTasks
  | _ => false

mutual
/-- `inTask = true`: children of a task (`(section | other)* end`);
    `false`: children of a section (`(section | create | other)* wait`) -/
def wnForest (inTask : Bool) : Forest → Bool
  | .nil => false
  | .cons t .nil => isLast inTask t
  | .cons t (.cons t' rest) => wnItem inTask t && wnForest inTask (.cons t' rest)
def wnItem (inTask : Bool) : Tree → Bool
  | .ival k _ => k == .other
  | .create _ child => !inTask && wnTask child
  | .group k f => k == .section && wnForest false f
def wnTask : Tree → Bool
  | .group k f => k == .task && wnForest true f
  | _ => false
end

end MythVerif.DagRec
