/-! Function update on an unbounded index set, with the rewriting lemmas every model uses. -/
namespace MythVerif

/-- `upd f i x` is `f` with the value at `i` replaced by `x`. -/
def upd {α : Type} {β : Type} [DecidableEq α] (f : α → β) (i : α) (x : β) : α → β :=
  fun j => if j = i then x else f j

@[simp] theorem upd_same {α β : Type} [DecidableEq α] (f : α → β) (i : α) (x : β) :
    upd f i x i = x := by simp [upd]

theorem upd_apply {α β : Type} [DecidableEq α] (f : α → β) (i : α) (x : β) (j : α) :
    upd f i x j = if j = i then x else f j := rfl

@[simp] theorem upd_other {α β : Type} [DecidableEq α] (f : α → β) (i j : α) (x : β) (h : j ≠ i) :
    upd f i x j = f j := by simp [upd, h]

end MythVerif
