/-! Reachability for labelled transition systems given by a partial step function, and the
    lifting of inductive invariants to every reachable state (no bound on the number of steps). -/
namespace MythVerif

/-- run a list of labels from `s`; `none` as soon as one label is not enabled -/
def runs {S L : Type} (step : S → L → Option S) (s : S) : List L → Option S
  | [] => some s
  | l :: ls => match step s l with
    | some s' => runs step s' ls
    | none => none

/-- `s` is reachable from `init` by some finite label sequence -/
def Reachable {S L : Type} (step : S → L → Option S) (init : S) (s : S) : Prop :=
  ∃ ls : List L, runs step init ls = some s

theorem runs_inv {S L : Type} (step : S → L → Option S) (Inv : S → Prop)
    (hs : ∀ s l s', Inv s → step s l = some s' → Inv s') :
    ∀ (ls : List L) (s s' : S), Inv s → runs step s ls = some s' → Inv s' := by
  intro ls
  induction ls with
  | nil => intro s s' h hr; simp [runs] at hr; subst hr; exact h
  | cons l ls ih =>
    intro s s' h hr
    simp only [runs] at hr
    split at hr
    · rename_i s1 h1; exact ih s1 s' (hs s l s1 h h1) hr
    · simp at hr

/-- an inductive invariant holds in every reachable state -/
theorem inv_reachable {S L : Type} (step : S → L → Option S) (init : S) (Inv : S → Prop)
    (h0 : Inv init) (hs : ∀ s l s', Inv s → step s l = some s' → Inv s') :
    ∀ s, Reachable step init s → Inv s := by
  intro s ⟨ls, hr⟩
  exact runs_inv step Inv hs ls init s h0 hr

theorem runs_append {S L : Type} (step : S → L → Option S) (s : S) (l1 l2 : List L) :
    runs step s (l1 ++ l2) = (runs step s l1).bind (fun s' => runs step s' l2) := by
  induction l1 generalizing s with
  | nil => simp [runs]
  | cons l ls ih =>
    simp only [List.cons_append, runs]
    split
    · exact ih _
    · simp

theorem reachable_step {S L : Type} (step : S → L → Option S) (init s s' : S) (l : L)
    (h : Reachable step init s) (hs : step s l = some s') : Reachable step init s' := by
  obtain ⟨ls, hr⟩ := h
  refine ⟨ls ++ [l], ?_⟩
  rw [runs_append, hr]
  simp [runs, hs]

end MythVerif
