import MythVerif.Basic.Run
import MythVerif.Basic.Upd
/-!
# x86-TSO kit: store buffers, single-writer locations, message passing

The standard x86-TSO abstract machine (Owens, Sarkar, Sewell): one FIFO store buffer per hardware
thread; a store is appended to the issuing thread's buffer; a separate `flush` step moves the
oldest entry to memory; a load returns the newest buffered store of the same thread to that
location, otherwise memory; fences and locked read-modify-write instructions (`xchg`,
`lock cmpxchg` — what `myth_rwbarrier`, the `__sync_*` builtins and the spin lock compile to) are
enabled only on an empty own buffer, and a locked instruction writes memory directly.

The number of threads, the number of locations and the length of every buffer are unbounded.
`done t` is a ghost: the stores of `t` that have already been flushed, in flush order; so
`done t ++ buf t` is the program-order list of every store `t` has issued so far.
-/
namespace MythVerif.Tso

abbrev Loc := Nat
abbrev Val := Nat
abbrev Tid := Nat

structure St where
  mem : Loc → Val
  buf : Tid → List (Loc × Val)      -- oldest first
  done : Tid → List (Loc × Val)     -- ghost: flushed stores, oldest first

inductive Lbl where
  | store (t : Tid) (l : Loc) (v : Val)
  | flush (t : Tid)
  | load (t : Tid) (l : Loc) (v : Val)             -- `v` is the value the load returns
  | fence (t : Tid)
  | rmw (t : Tid) (l : Loc) (old new : Val)        -- locked instruction: reads `old`, writes `new`
  deriving DecidableEq, Repr

/-- newest buffered value for `l`, if any -/
def newest (b : List (Loc × Val)) (l : Loc) : Option Val :=
  (b.reverse.find? (fun e => e.1 == l)).map (·.2)

/-- what a load of `l` by `t` returns: store forwarding, else memory -/
def view (s : St) (t : Tid) (l : Loc) : Val :=
  match newest (s.buf t) l with
  | some v => v
  | none => s.mem l

def init (m0 : Loc → Val) : St := { mem := m0, buf := fun _ => [], done := fun _ => [] }

def step (s : St) : Lbl → Option St
  | .store t l v => some { s with buf := upd s.buf t (s.buf t ++ [(l, v)]) }
  | .flush t =>
    match s.buf t with
    | [] => none
    | (l, v) :: rest =>
      some { mem := upd s.mem l v, buf := upd s.buf t rest, done := upd s.done t (s.done t ++ [(l, v)]) }
  | .load t l v => if view s t l = v then some s else none
  | .fence t => if s.buf t = [] then some s else none
  | .rmw t l old new =>
    if s.buf t = [] ∧ s.mem l = old then some { s with mem := upd s.mem l new } else none

/-- memory after performing a list of stores in order -/
def applyStores (m : Loc → Val) : List (Loc × Val) → Loc → Val
  | [] => m
  | (l, v) :: rest => applyStores (upd m l v) rest

/-- does the label write location `l` (to a buffer or to memory)? -/
def Lbl.writes : Lbl → Loc → Bool
  | .store _ l' _, l => l' == l
  | .rmw _ l' _ _, l => l' == l
  | _, _ => false

/-- is the label a plain store by `w`? -/
def Lbl.isStoreBy : Lbl → Tid → Bool
  | .store t _ _, w => t == w
  | _, _ => false

theorem applyStores_append (m : Loc → Val) (a b : List (Loc × Val)) :
    applyStores m (a ++ b) = applyStores (applyStores m a) b := by
  induction a generalizing m with
  | nil => rfl
  | cons e a ih => obtain ⟨l, v⟩ := e; simp [applyStores, ih]

/-- stores that do not mention `l` leave `l` alone -/
theorem applyStores_untouched (m : Loc → Val) (a : List (Loc × Val)) (l : Loc)
    (h : ∀ e ∈ a, e.1 ≠ l) : applyStores m a l = m l := by
  induction a generalizing m with
  | nil => rfl
  | cons e a ih =>
    obtain ⟨l', v⟩ := e
    simp only [applyStores]
    rw [ih]
    · have : l' ≠ l := h (l', v) (by simp)
      simp [upd, Ne.symm this]
    · intro e he; exact h e (by simp [he])

theorem applyStores_congr (m m' : Loc → Val) (a : List (Loc × Val)) (l : Loc) (h : m l = m' l) :
    applyStores m a l = applyStores m' a l := by
  induction a generalizing m m' with
  | nil => exact h
  | cons e a ih =>
    obtain ⟨l', v⟩ := e
    simp only [applyStores]
    apply ih
    simp only [upd]; split <;> simp [h]

theorem newest_none_of_not_mem (b : List (Loc × Val)) (l : Loc) (h : ∀ e ∈ b, e.1 ≠ l) : newest b l = none := by
  unfold newest
  have : b.reverse.find? (fun e => e.1 == l) = none := by
    rw [List.find?_eq_none]
    intro e he
    have := h e (by simpa using he)
    simpa using this
  simp [this]

/-- the single-writer invariant for location `l` with writer `w` -/
structure SW (m0 : Loc → Val) (w : Tid) (l : Loc) (s : St) : Prop where
  mem : s.mem l = applyStores m0 (s.done w) l
  others : ∀ t, t ≠ w → ∀ e ∈ s.buf t, e.1 ≠ l

theorem sw_init (m0 : Loc → Val) (w : Tid) (l : Loc) : SW m0 w l (init m0) :=
  ⟨rfl, by intro t _ e he; simp [init] at he⟩

theorem sw_step (m0 : Loc → Val) (w : Tid) (l : Loc) (s s' : St) (lb : Lbl)
    (hi : SW m0 w l s) (hok : lb.writes l = true → lb.isStoreBy w = true)
    (hs : step s lb = some s') : SW m0 w l s' := by
  obtain ⟨hm, ho⟩ := hi
  cases lb with
  | store t l' v =>
    simp only [step, Option.some.injEq] at hs; subst hs
    refine ⟨hm, ?_⟩
    intro t' ht' e he
    by_cases htt : t' = t
    · subst htt
      simp only [upd_same, List.mem_append, List.mem_singleton] at he
      rcases he with he | he
      · exact ho t' ht' e he
      · subst he
        intro hl
        have hl' : l' = l := hl
        have := hok (by simp [Lbl.writes, hl'])
        simp [Lbl.isStoreBy] at this
        exact ht' this
    · simp only [upd_other _ _ _ _ htt] at he
      exact ho t' ht' e he
  | flush t =>
    simp only [step] at hs
    split at hs
    · simp at hs
    · rename_i l' v rest hb
      simp only [Option.some.injEq] at hs; subst hs
      by_cases htw : t = w
      · subst htw
        refine ⟨?_, ?_⟩
        · simp only [upd_same, applyStores_append, applyStores]
          by_cases hl : l = l'
          · subst hl; simp [upd]
          · simp only [upd, hl, if_false]; exact hm
        · intro t' ht' e he
          simp only [upd_other _ _ _ _ ht'] at he
          exact ho t' ht' e he
      · refine ⟨?_, ?_⟩
        · simp only [upd_other _ _ _ _ (Ne.symm htw)]
          have : l' ≠ l := ho t htw (l', v) (by simp [hb])
          simp only [upd, Ne.symm this, if_false]; exact hm
        · intro t' ht' e he
          by_cases htt : t' = t
          · subst htt
            simp only [upd_same] at he
            exact ho t' ht' e (by simp [hb, he])
          · simp only [upd_other _ _ _ _ htt] at he
            exact ho t' ht' e he
  | load t l' v =>
    simp only [step] at hs
    split at hs
    · simp only [Option.some.injEq] at hs; subst hs; exact ⟨hm, ho⟩
    · simp at hs
  | fence t =>
    simp only [step] at hs
    split at hs
    · simp only [Option.some.injEq] at hs; subst hs; exact ⟨hm, ho⟩
    · simp at hs
  | rmw t l' old new =>
    simp only [step] at hs
    split at hs
    · simp only [Option.some.injEq] at hs; subst hs
      have hne : l' ≠ l := by
        intro hl
        have := hok (by simp [Lbl.writes, hl])
        simp [Lbl.isStoreBy] at this
      refine ⟨?_, ho⟩
      simp only [upd, Ne.symm hne, if_false]; exact hm
    · simp at hs

theorem sw_runs (m0 : Loc → Val) (w : Tid) (l : Loc) :
    ∀ (ls : List Lbl) (s s' : St), SW m0 w l s →
      (∀ lb ∈ ls, lb.writes l = true → lb.isStoreBy w = true) →
      runs step s ls = some s' → SW m0 w l s' := by
  intro ls
  induction ls with
  | nil => intro s s' h _ hr; simp [runs] at hr; subst hr; exact h
  | cons lb ls ih =>
    intro s s' h hok hr
    simp only [runs] at hr
    split at hr
    · rename_i s1 h1
      exact ih s1 s' (sw_step m0 w l s s1 lb h (hok lb (by simp)) h1)
        (fun lb' hlb' => hok lb' (by simp [hlb'])) hr
    · simp at hr

/-- **single-writer locations**: if in a run only plain stores of `w` ever write `l`, then in the
    final state memory at `l` is what `w`'s flushed stores made of it, no other thread has a
    buffered store to `l`, and every other thread's load of `l` returns memory. -/
theorem single_writer (m0 : Loc → Val) (w : Tid) (l : Loc) (ls : List Lbl) (s : St)
    (hr : runs step (init m0) ls = some s)
    (hok : ∀ lb ∈ ls, lb.writes l = true → lb.isStoreBy w = true) :
    s.mem l = applyStores m0 (s.done w) l ∧
    ∀ t, t ≠ w → view s t l = applyStores m0 (s.done w) l := by
  have h := sw_runs m0 w l ls (init m0) s (sw_init m0 w l) hok hr
  refine ⟨h.mem, ?_⟩
  intro t ht
  simp only [view, newest_none_of_not_mem _ _ (h.others t ht)]
  exact h.mem

/-- if the stores performed changed `f`, one of them is a store to `f` -/
theorem exists_store_of_changed (m : Loc → Val) (a : List (Loc × Val)) (f : Loc)
    (h : applyStores m a f ≠ m f) : ∃ e ∈ a, e.1 = f := by
  apply Classical.byContradiction
  intro hn
  apply h
  apply applyStores_untouched
  intro e he hf
  exact hn ⟨e, he, hf⟩

/-- **message passing (FIFO store buffers)**.  Writer `w` issues, in program order, the stores
    `data` (none of them to the flag `f`), then the flag store `(f, v)`, then anything that touches
    neither `f` nor the data location `l`.  Only `w` writes `f` and `l`.  If any other thread `r`
    then loads `f` and obtains `v` (which is not the initial value of `f`), every load of `l` by `r`
    in that state returns exactly what `w`'s `data` stores made of `l`: the flag store can only be
    visible after everything `w` stored before it. -/
theorem message_passing (m0 : Loc → Val) (w r : Tid) (f l : Loc) (v : Val) (ls : List Lbl) (s : St)
    (data post : List (Loc × Val))
    (hr : runs step (init m0) ls = some s) (hrw : r ≠ w) (hfl : l ≠ f)
    (hokf : ∀ lb ∈ ls, lb.writes f = true → lb.isStoreBy w = true)
    (hokl : ∀ lb ∈ ls, lb.writes l = true → lb.isStoreBy w = true)
    (hlog : s.done w ++ s.buf w = data ++ (f, v) :: post)
    (hdata : ∀ e ∈ data, e.1 ≠ f) (hpost : ∀ e ∈ post, e.1 ≠ f ∧ e.1 ≠ l)
    (hv0 : m0 f ≠ v) (hsee : view s r f = v) :
    view s r l = applyStores m0 data l ∧ s.mem l = applyStores m0 data l := by
  have hf := single_writer m0 w f ls s hr hokf
  have hl := single_writer m0 w l ls s hr hokl
  have hseen : applyStores m0 (s.done w) f ≠ m0 f := by
    rw [← hf.2 r hrw, hsee]; exact Ne.symm hv0
  obtain ⟨e, he, hef⟩ := exists_store_of_changed m0 (s.done w) f hseen
  -- the flushed part reaches beyond `data`
  have hsplit : ∃ post', s.done w = data ++ (f, v) :: post' ∧ ∀ e ∈ post', e.1 ≠ f ∧ e.1 ≠ l := by
    rcases List.append_eq_append_iff.mp hlog with ⟨a', h1, _⟩ | ⟨c', h1, h2⟩
    · have : e ∈ data := by rw [h1]; simp [he]
      exact absurd hef (hdata e this)
    · cases c' with
      | nil =>
        simp only [List.append_nil] at h1
        rw [h1] at he
        exact absurd hef (hdata e he)
      | cons x c' =>
        simp only [List.cons_append, List.cons.injEq] at h2
        refine ⟨c', by rw [h1, ← h2.1], ?_⟩
        intro e' he'
        exact hpost e' (by rw [h2.2]; simp [he'])
  obtain ⟨post', hd, hp'⟩ := hsplit
  have key : applyStores m0 (s.done w) l = applyStores m0 data l := by
    rw [hd, applyStores_append]
    simp only [applyStores]
    rw [applyStores_untouched _ post' l (fun e he => (hp' e he).2)]
    simp [upd, hfl]
  exact ⟨(hl.2 r hrw).trans key, hl.1.trans key⟩

/-- non-vacuity: writer 1 stores data cells 10 and 11, then the flag 5; the flag is flushed
    (necessarily after both data stores); reader 2 sees the flag and reads the data -/
example :
    (runs step (init (fun _ => 0))
      [.store 1 10 7, .store 1 11 8, .store 1 10 9, .store 1 5 3, .store 1 6 1,
       .flush 1, .flush 1, .flush 1, .load 2 5 0, .flush 1, .load 2 5 3, .load 2 10 9, .load 2 11 8]).isSome = true := by
  decide

/-- non-vacuity: the machine really is weaker than sequential consistency — both threads of the
    store-buffering litmus test read the initial value -/
example :
    (runs step (init (fun _ => 0))
      [.store 1 10 1, .store 2 11 1, .load 1 11 0, .load 2 10 0]).isSome = true := by
  decide

/-- … and a fence (or locked instruction) between the store and the load forbids that outcome:
    a thread's fence is enabled only after its store was flushed -/
example :
    (runs step (init (fun _ => 0))
      [.store 1 10 1, .store 2 11 1, .fence 1]).isNone = true ∧
    (runs step (init (fun _ => 0))
      [.store 1 10 1, .store 2 11 1, .flush 1, .fence 1, .flush 2, .fence 2, .load 1 11 0]).isNone = true := by
  decide

end MythVerif.Tso
