import Driver.Bulk
def main (args : List String) : IO UInt32 := Driver.Bulk.run args
