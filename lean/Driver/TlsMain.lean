import Driver.Tls
def main (args : List String) : IO UInt32 := Driver.Tls.run args
