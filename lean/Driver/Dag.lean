import MythVerif.Model.DagRec
import Driver.Util
/-! `drv_dag`: the DAG Recorder model (C18, C19) behind a line protocol.

  tree V STARTCLOCK ROOTFILE ROOTLINE <captured tree tokens>   load an execution (V = fixed | pinned)
  rec UMIN CMAX CMAXCOUNT NCT PRUNE      run the recorder model under these options -> root info
  leaves                                 est / in_edge_kind / first_ready_t of every interval
  flat                                   the flat-interval-list specification of the totals
-/
namespace Driver.Dag
open MythVerif MythVerif.DagRec

structure St where
  v : Variant := .fixed
  startClock : Nat := 0
  tree : Tree := .group .task .nil
  dag : DNode := .ival {}

def nkOf : Nat → NKind
  | 0 => .createTask | 1 => .waitTasks | 2 => .other | 3 => .endTask | 4 => .section | _ => .task

def forestOf : List Tree → Forest
  | [] => .nil
  | t :: ts => .cons t (forestOf ts)

def natOf (s : String) : Nat := s.toNat?.getD 0

/-- parse one group (after its opening `T` / `S`), returning its children and the remaining tokens -/
partial def parseItems : List String → List Tree → Option (List Tree × List String)
  | "." :: rest, acc => some (acc.reverse, rest)
  | "I" :: k :: st :: et :: w :: sf :: sl :: ef :: el :: rest, acc =>
    let r : Raw := { startT := natOf st, endT := natOf et, worker := natOf w,
                     spos := ⟨natOf sf, natOf sl⟩, epos := ⟨natOf ef, natOf el⟩ }
    parseItems rest (.ival (nkOf (natOf k)) r :: acc)
  | "C" :: _ :: st :: et :: w :: sf :: sl :: ef :: el :: "T" :: rest, acc =>
    let r : Raw := { startT := natOf st, endT := natOf et, worker := natOf w,
                     spos := ⟨natOf sf, natOf sl⟩, epos := ⟨natOf ef, natOf el⟩ }
    match parseItems rest [] with
    | some (ch, rest') => parseItems rest' (.create r (.group .task (forestOf ch)) :: acc)
    | none => none
  | "S" :: rest, acc =>
    match parseItems rest [] with
    | some (ch, rest') => parseItems rest' (.group .section (forestOf ch) :: acc)
    | none => none
  | _, _ => none

def showInfo (i : Info) : String :=
  let c := i.c
  joinSp ([c.kind.toNat, c.inEdgeKind.toNat, c.start.t, c.end_.t, c.est, c.t1, c.tinf, c.firstReadyT, c.lastStartT,
           c.tReady.end_, c.tReady.create, c.tReady.createCont, c.tReady.waitCont, c.tReady.otherCont,
           c.nc.create, c.nc.wait, c.nc.other, c.nc.endT,
           c.ec.end_, c.ec.create, c.ec.createCont, c.ec.waitCont, c.ec.otherCont,
           i.cur, i.min, c.nChild].map toString
          ++ [toString c.worker, toString c.start.worker, toString c.end_.worker])

def step (s : St) (line : String) : St × String :=
  match Driver.words line with
  | "tree" :: v :: sc :: rf :: rl :: "T" :: toks =>
    match parseItems toks [] with
    | some (ch, []) =>
      -- the root task's own start position is the one given to dr_start__; it only shows in the
      -- first interval's `start.pos`, which the capture already carries
      let _ := (rf, rl)
      let t := Tree.group .task (forestOf ch)
      ({ s with v := if v == "pinned" then .pinned else .fixed, startClock := natOf sc, tree := t },
       s!"ok {(leavesTree t).length} {wnTask t}")
    | _ => (s, "bad-tree")
  | ["rec", umin, cmax, cmc, nct, prune] =>
    let o : Opts := { uncollapseMin := natOf umin, collapseMax := natOf cmax, collapseMaxCount := natOf cmc,
                      nodeCountTarget := natOf nct, pruneThreshold := natOf prune }
    let d := record s.v o s.startClock s.tree
    ({ s with dag := d }, "root " ++ showInfo d.info ++ s!" count {d.count}")
  | ["leaves"] =>
    let ls := leafInfosTree s.v s.tree (rootCursor s.startClock)
    (s, "leaves " ++ joinSp (ls.map fun i => s!"{i.c.est} {i.c.inEdgeKind.toNat} {i.c.firstReadyT}"))
  | ["flat"] =>
    let ls := leavesTree s.tree
    let nc := flatNC ls
    let ec := flatEC ls
    let infos := leafInfosTree s.v s.tree (rootCursor s.startClock)
    (s, s!"flat {flatWork ls} {maxFinish infos} {nc.create} {nc.wait} {nc.other} {nc.endT} {ec.end_} {ec.create} {ec.createCont} {ec.waitCont} {ec.otherCont}")
  | _ => (s, "bad-op")

def run (_args : List String) : IO UInt32 := do
  let stdin ← IO.getStdin
  let stdout ← IO.getStdout
  let _ ← Driver.forLines stdin ({} : St) fun s line => do
    let (s', out) := step s line
    stdout.putStrLn out
    pure s'
  stdout.flush
  return 0

end Driver.Dag
