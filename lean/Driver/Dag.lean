import Driver.Util
/-! `drv_dag`: stub, to be filled in -/
namespace Driver.Dag
def run (_args : List String) : IO UInt32 := do
  IO.eprintln "drv_dag: not implemented"
  return 2
end Driver.Dag
