import MythVerif.Model.PiDag
import Driver.Util
/-! `drv_dag`: the DAG Recorder model (C18, C19) behind a line protocol.

  tree V STARTCLOCK ROOTFILE ROOTLINE <captured tree tokens>   load an execution (V = fixed | pinned)
  rec UMIN CMAX CMAXCOUNT NCT PRUNE      run the recorder model under these options -> root info
  leaves                                 est / in_edge_kind / first_ready_t of every interval
  flat                                   the flat-interval-list specification of the totals
  tot                                    tree-level account of the .stat edge totals of the last `rec`
  dag NW                                 flatten the in-memory DAG of the last `rec` (dr_make_pi_dag) -> arrays
  shrink UMIN CMAX CMAXCOUNT             dr_copy_pi_dag of the last `dag` with conversion-time options -> arrays
  load dag N M NS NW <N .. E .. S ..>    load explicit arrays (the canonical print of `dag`) as G
  wf G|H  /  replay G|H  /  stat G|H     checker verdict, chronological replay counters, gen_stat totals
                                         of the last `dag` (G) or `shrink` (H)
-/
namespace Driver.Dag
open MythVerif MythVerif.DagRec MythVerif.PiDag

structure St where
  v : Variant := .fixed
  startClock : Nat := 0
  tree : Tree := .group .task .nil
  dag : DNode := .ival {}
  G : PiDag := {}
  H : PiDag := {}

def nkOf : Nat → NKind
  | 0 => .createTask | 1 => .waitTasks | 2 => .other | 3 => .endTask | 4 => .section | _ => .task

def forestOf : List Tree → Forest
  | [] => .nil
  | t :: ts => .cons t (forestOf ts)

def natOf (s : String) : Nat := s.toNat?.getD 0

/-- parse one group (after its opening `T` / `S`), returning its children and the remaining tokens -/
partial def parseItems : List String → List Tree → Option (List Tree × List String)
  | "." :: rest, acc => some (acc.reverse, rest)
  | "I" :: k :: st :: et :: w :: sf :: sl :: ef :: el :: rest, acc =>
    let r : Raw := { startT := natOf st, endT := natOf et, worker := natOf w,
                     spos := ⟨natOf sf, natOf sl⟩, epos := ⟨natOf ef, natOf el⟩ }
    parseItems rest (.ival (nkOf (natOf k)) r :: acc)
  | "C" :: _ :: st :: et :: w :: sf :: sl :: ef :: el :: "T" :: rest, acc =>
    let r : Raw := { startT := natOf st, endT := natOf et, worker := natOf w,
                     spos := ⟨natOf sf, natOf sl⟩, epos := ⟨natOf ef, natOf el⟩ }
    match parseItems rest [] with
    | some (ch, rest') => parseItems rest' (.create r (.group .task (forestOf ch)) :: acc)
    | none => none
  | "S" :: rest, acc =>
    match parseItems rest [] with
    | some (ch, rest') => parseItems rest' (.group .section (forestOf ch) :: acc)
    | none => none
  | _, _ => none

def showInfo (i : Info) : String :=
  let c := i.c
  joinSp ([c.kind.toNat, c.inEdgeKind.toNat, c.start.t, c.end_.t, c.est, c.t1, c.tinf, c.firstReadyT, c.lastStartT,
           c.tReady.end_, c.tReady.create, c.tReady.createCont, c.tReady.waitCont, c.tReady.otherCont,
           c.nc.create, c.nc.wait, c.nc.other, c.nc.endT,
           c.ec.end_, c.ec.create, c.ec.createCont, c.ec.waitCont, c.ec.otherCont,
           i.cur, i.min, c.nChild].map toString
          ++ [toString c.worker, toString c.start.worker, toString c.end_.worker])

def showNode (x : PNode) : String :=
  let c := x.info.c
  " N " ++ showInfo x.info ++ " " ++
    joinSp ([c.start.pos.file, c.start.pos.line, c.end_.pos.file, c.end_.pos.line, x.eb, x.ee, x.a, x.b].map toString)

def showDag (G : PiDag) : String :=
  s!"dag {G.T.size} {G.E.size} {G.S.length} {G.nw}" ++
    String.join (G.T.toList.map showNode) ++
    String.join (G.E.toList.map fun e => s!" E {e.kind.toNat} {e.u} {e.v}") ++
    String.join (G.S.map fun f => s!" S {f}")

def showReplay (G : PiDag) : String :=
  let r := replay G
  let n := G.T.size
  let idx := List.range n
  let leaves := idx.countP fun i => isLeaf G.T[i]!
  let once := idx.countP fun i => isLeaf G.T[i]! && r.started[i]! == 1 && r.ended[i]! == 1
  let inner := idx.countP fun i => !isLeaf G.T[i]! && (r.started[i]! != 0 || r.ended[i]! != 0)
  s!"replay {r.nev[0]!} {r.nev[1]!} {r.nev[2]!} {r.nev[3]!} {leaves} {once} {inner} {r.nRunning} {r.nReady} {r.t} {r.cumRunning} {r.cumReady} {r.nonMono} {r.queue.length}"

def allEK : List EKind := [.end_, .create, .createCont, .waitCont, .otherCont]

def showStat (G : PiDag) : String :=
  let r := G.T[0]!.info
  let nints := r.c.nc.total
  s!"stat {statWork G} {r.c.tinf} {r.c.nc.create} {r.c.nc.wait} {r.c.nc.endT} {nints + r.c.nc.wait + r.c.nc.create + 1} {r.cur}" ++
    String.join (allEK.map fun k => s!" {statEdgeTotal G k}") ++
    String.join (allEK.map fun k => " M " ++ joinSp ((statEdgeMatrix G k).toList.map toString))

def showWf (G : PiDag) : String :=
  let r := wfReport G
  s!"wf {wellFormed G} offsets={r.offsets} edgeEnds={r.edgeEnds} grouped={r.grouped} counted={r.counted} strings={r.strings} degrees={r.degrees} certificate={r.certificate}"

def pick (s : St) (w : String) : PiDag := if w == "H" then s.H else s.G

def ekOf : Nat → EKind
  | 0 => .end_ | 1 => .create | 2 => .createCont | 3 => .waitCont | _ => .otherCont

def intOf (s : String) : Int := s.toInt?.getD 0

/-- parse the canonical print of a position independent DAG (`showDag`) -/
partial def parseDag (toks : List String) (G : PiDag) : Option PiDag :=
  match toks with
  | [] => some G
  | "N" :: k :: ik :: st :: en :: est :: t1 :: tinf :: frt :: lst :: r0 :: r1 :: r2 :: r3 :: r4 ::
      n0 :: n1 :: n2 :: n3 :: e0 :: e1 :: e2 :: e3 :: e4 :: cur :: mn :: nch :: w :: sw :: ew ::
      sf :: sl :: ef :: el :: eb :: ee :: a :: b :: rest =>
    let c : Core :=
      { start := ⟨natOf st, intOf sw, ⟨natOf sf, natOf sl⟩⟩, end_ := ⟨natOf en, intOf ew, ⟨natOf ef, natOf el⟩⟩,
        est := natOf est, t1 := natOf t1, tinf := natOf tinf, firstReadyT := natOf frt, lastStartT := natOf lst,
        tReady := ⟨natOf r0, natOf r1, natOf r2, natOf r3, natOf r4⟩,
        nc := ⟨natOf n0, natOf n1, natOf n2, natOf n3⟩, ec := ⟨natOf e0, natOf e1, natOf e2, natOf e3, natOf e4⟩,
        nChild := natOf nch, worker := intOf w, kind := nkOf (natOf k), inEdgeKind := ekOf (natOf ik) }
    let x : PNode := { info := { c := c, cur := natOf cur, min := natOf mn }, eb := natOf eb, ee := natOf ee,
                       a := natOf a, b := natOf b }
    parseDag rest { G with T := G.T.push x }
  | "E" :: k :: u :: v :: rest => parseDag rest { G with E := G.E.push ⟨ekOf (natOf k), natOf u, natOf v⟩ }
  | "S" :: f :: rest => parseDag rest { G with S := G.S ++ [natOf f] }
  | _ => none

def step (s : St) (line : String) : St × String :=
  match Driver.words line with
  | "tree" :: v :: sc :: rf :: rl :: "T" :: toks =>
    match parseItems toks [] with
    | some (ch, []) =>
      -- the root task's own start position is the one given to dr_start__; it only shows in the
      -- first interval's `start.pos`, which the capture already carries
      let _ := (rf, rl)
      let t := Tree.group .task (forestOf ch)
      ({ s with v := if v == "pinned" then .pinned else .fixed, startClock := natOf sc, tree := t },
       s!"ok {(leavesTree t).length} {wnTask t}")
    | _ => (s, "bad-tree")
  | ["rec", umin, cmax, cmc, nct, prune] =>
    let o : Opts := { uncollapseMin := natOf umin, collapseMax := natOf cmax, collapseMaxCount := natOf cmc,
                      nodeCountTarget := natOf nct, pruneThreshold := natOf prune }
    let d := record s.v o s.startClock s.tree
    ({ s with dag := d }, "root " ++ showInfo d.info ++ s!" count {d.count}")
  | ["tot"] =>
    let e := totN s.dag
    (s, s!"tot {e.end_} {e.create} {e.createCont} {e.waitCont} {e.otherCont}")
  | ["leaves"] =>
    let ls := leafInfosTree s.v s.tree (rootCursor s.startClock)
    (s, "leaves " ++ joinSp (ls.map fun i => s!"{i.c.est} {i.c.inEdgeKind.toNat} {i.c.firstReadyT}"))
  | ["flat"] =>
    let ls := leavesTree s.tree
    let nc := flatNC ls
    let ec := flatEC ls
    let infos := leafInfosTree s.v s.tree (rootCursor s.startClock)
    (s, s!"flat {flatWork ls} {maxFinish infos} {nc.create} {nc.wait} {nc.other} {nc.endT} {ec.end_} {ec.create} {ec.createCont} {ec.waitCont} {ec.otherCont}")
  | ["dag", nw] =>
    let G := flatten s.startClock (natOf nw) s.dag
    ({ s with G := G }, showDag G)
  | ["shrink", umin, cmax, cmc] =>
    let H := shrink { uncollapseMin := natOf umin, collapseMax := natOf cmax, collapseMaxCount := natOf cmc } s.G
    ({ s with H := H }, showDag H)
  | "load" :: "dag" :: n :: m :: ns :: nw :: toks =>
    match parseDag toks { nw := natOf nw } with
    | some G =>
      if G.T.size == natOf n && G.E.size == natOf m && G.S.length == natOf ns then ({ s with G := G }, s!"loaded {n} {m} {ns}")
      else (s, "bad-dag-sizes")
    | none => (s, "bad-dag")
  | ["dag-echo"] => (s, showDag s.G)
  | ["wf", w] => (s, showWf (pick s w))
  | ["replay", w] => (s, showReplay (pick s w))
  | ["stat", w] => (s, showStat (pick s w))
  | _ => (s, "bad-op")

def run (_args : List String) : IO UInt32 := do
  let stdin ← IO.getStdin
  let stdout ← IO.getStdout
  let _ ← Driver.forLines stdin ({} : St) fun s line => do
    let (s', out) := step s line
    stdout.putStrLn out
    pure s'
  stdout.flush
  return 0

end Driver.Dag
