import Driver.Util
/-! `drv_env`: stub, to be filled in -/
namespace Driver.Env
def run (_args : List String) : IO UInt32 := do
  IO.eprintln "drv_env: not implemented"
  return 2
end Driver.Env
