import MythVerif.Model.Env
import MythVerif.Model.CpuList
import MythVerif.Model.InitOnce
import MythVerif.Model.WorkerBarrier
import Driver.Util
/-! `drv_env`: the configuration readers, the CPU-list parser and the init-once transition system
    behind the line protocols of harness/env_unit.c (pure functions), harness/init_proc.c
    (sequential init/fini histories) and harness/init_conc.c (trace acceptor for controlled
    interleavings of concurrent initialisers). -/
namespace Driver.Env
open MythVerif MythVerif.Env MythVerif.CpuList MythVerif.InitOnce

def hexVal (c : Char) : Nat :=
  if '0' ≤ c ∧ c ≤ '9' then c.toNat - 48
  else if 'a' ≤ c ∧ c ≤ 'f' then c.toNat - 87
  else if 'A' ≤ c ∧ c ≤ 'F' then c.toNat - 55 else 0

def unhex : List Char → List Char
  | a :: b :: r => Char.ofNat (hexVal a * 16 + hexVal b) :: unhex r
  | _ => []

/-- `-` = unset, `=<hex>` = set -/
def dec (s : String) : Option CStr :=
  match s.toList with
  | '=' :: r => some (unhex r)
  | _ => none

def csv (l : List Int) : String := if l.isEmpty then "-" else ",".intercalate (l.map toString)

def showDiag : Option Diag → String
  | none => "none"
  | some d =>
    let k := match d.kind with
      | .expectedDigit => "digit"
      | .junk => "junk"
      | .tooMany => "toomany"
    s!"{k}:{d.okPos}:{d.pos}"

structure DSt where
  ncpu : Int := 1
  avail : Option Avail := none
  lts : St := InitOnce.init
  k : Nat := 0                 -- number of participants of init_conc
  bad : Bool := false

def b2n (b : Bool) : Nat := if b then 1 else 0

def parseMask (s : String) : Nat → Bool :=
  let l := (s.splitOn ",").filterMap (·.toNat?)
  fun c => l.contains c

/-- run thread `t`'s pending call to completion (a sequential caller: at most 8 accesses) -/
def runCall (ncpu : Int) (s : St) (t : Tid) : Nat → St
  | 0 => s
  | n + 1 => if s.pc t = .idle then s else
    match InitOnce.step ncpu s (.step t) with
    | some s' => runCall ncpu s' t n
    | none => s

def runFini (ncpu : Int) (s : St) : Nat → St
  | 0 => s
  | n + 1 => if s.fin = .idle then s else
    match InitOnce.step ncpu s .finStep with
    | some s' => runFini ncpu s' n
    | none => s

def reallyTotal (s : St) : Nat := (List.range (s.epoch + 1)).foldl (fun a e => a + s.inits e) 0

def osThreads (s : St) : Nat := if s.workers.length = 0 then 1 else s.workers.length

def summary (s : St) : String :=
  s!"rc=1 nw={s.gattr.nWorkers} stk={s.gattr.stacksize} really={reallyTotal s} threads={osThreads s}"

def setEnvVar (e : Environ) (name : String) (v : Option CStr) : Option Environ :=
  match name with
  | "MYTH_DEF_STKSIZE" => some { e with stk := v }
  | "MYTH_DEF_GUARDSIZE" => some { e with guard := v }
  | "MYTH_NUM_WORKERS" => some { e with nw := v }
  | "MYTH_WORKER_NUM" => some { e with oldNw := v }
  | "MYTH_BIND_WORKERS" => some { e with bind := v }
  | "MYTH_CHILD_FIRST" => some { e with childFirst := v }
  | "MYTH_CPU_LIST" => some e          -- read by myth_get_available_cpus only (binding)
  | _ => none

def pcName : PC → String
  | .idle => "idle" | .e0 => "e0" | .i0 => "i0" | .i1 => "i1" | .i2 => "i2" | .i3 => "i3" | .i4 => "i4"
def fpcName : FPC → String
  | .idle => "idle" | .f0 => "f0" | .f1 => "f1" | .f2 => "f2" | .f3 => "f3" | .f4 => "f4"

/-- accept one event of init_conc's trace -/
def accept (d : DSt) (w : List String) : DSt × String :=
  let s := d.lts
  let mism (msg : String) : DSt × String := ({ d with bad := true }, "MISMATCH " ++ msg)
  let adv (l : Label) (chk : St → Option String) : DSt × String :=
    match InitOnce.step d.ncpu s l with
    | none => mism "model step not enabled"
    | some s' => match chk s' with
      | none => ({ d with lts := s' }, "ok")
      | some m => mism m
  match w with
  | ["ev", p, "call", kind, n] =>
    match p.toNat?, n.toInt? with
    | some p, some n =>
      if kind = "implicit" then adv (.callEnsure p) (fun _ => none)
      else if kind = "init" then adv (.callInit p none) (fun _ => none)
      else
        let a : GAttr := { gattrDefault s.environ d.ncpu with nWorkers := n }
        adv (.callInit p (some a)) (fun _ => none)
    | _, _ => mism "bad event"
  | ["ev", p, pt, v] =>
    match p.toNat?, v.toInt? with
    | some p, some v =>
      let pc := s.pc p
      match pt with
      | "fast" =>
        if pc = .i0 ∧ s.state = sInitialized then adv (.step p) (fun _ => none)
        else mism s!"fast: model pc={pcName pc} state={s.state}"
      | "slow" =>
        -- an implicit call reads twice (inline test, then the body) inside one segment
        let s1 := if pc = .e0 then (InitOnce.step d.ncpu s (.step p)).getD s else s
        if s1.pc p = .i0 ∧ s1.state ≠ sInitialized then
          match InitOnce.step d.ncpu s1 (.step p) with
          | some s2 => ({ d with lts := s2 }, "ok")
          | none => mism "slow: not enabled"
        else mism s!"slow: model pc={pcName pc} state={s.state}"
      | "cas" =>
        if pc = .i1 then adv (.step p) (fun s' =>
          if (s'.pc p = .i3) = (v = 1) then none else some s!"cas: impl won={v}, model pc after={pcName (s'.pc p)}")
        else mism s!"cas: model pc={pcName pc}"
      | "wait" =>
        if pc = .i2 ∧ s.state ≠ sInitialized then adv (.step p) (fun _ => none)
        else mism s!"wait: model pc={pcName pc} state={s.state}"
      | "waited" =>
        if pc = .i2 ∧ s.state = sInitialized then adv (.step p) (fun _ => none)
        else mism s!"waited: model pc={pcName pc} state={s.state}"
      | "really" =>
        if pc = .i3 then adv (.step p) (fun s' =>
          if s'.gattr.nWorkers = v then none else some s!"really: impl nw={v}, model nw={s'.gattr.nWorkers}")
        else mism s!"really: model pc={pcName pc}"
      | "started" =>
        if pc = .i4 ∧ s.gattr.nWorkers = v ∧ s.workers.length = v.toNat then (d, "ok")
        else mism s!"started: model pc={pcName pc} nw={s.gattr.nWorkers}"
      | "done" =>
        if pc = .i4 then adv (.step p) (fun s' => if s'.state = sInitialized then none else some "done: state")
        else mism s!"done: model pc={pcName pc}"
      | "ret" =>
        -- implicit call on an initialised library: the inline test returns without any event
        if pc = .e0 ∧ s.state = sInitialized then adv (.step p) (fun _ => none)
        else if pc = .idle then (d, "ok")
        else mism s!"ret: model pc={pcName pc} state={s.state}"
      | _ => mism "unknown point"
    | _, _ => mism "bad event"
  | ["fev", pt, v] =>
    match v.toInt? with
    | some v =>
      let f := s.fin
      match pt with
      | "call" => adv .callFini (fun _ => none)
      | "noop" => if f = .f0 ∧ s.state = sUninit then adv .finStep (fun _ => none) else mism s!"noop: fin={fpcName f}"
      | "begin" => if f = .f0 ∧ s.state ≠ sUninit then adv .finStep (fun _ => none) else mism s!"begin: fin={fpcName f}"
      | "wait" => if f = .f1 ∧ s.state ≠ sInitialized then adv .finStep (fun _ => none) else mism s!"fwait: fin={fpcName f}"
      | "waited" =>
        -- v = the rank the finaliser runs on: the main user thread may have migrated
        if f = .f1 ∧ s.state = sInitialized then
          match InitOnce.step d.ncpu s (.migrate v.toNat) with
          | some s1 => match InitOnce.step d.ncpu s1 .finStep with
            | some s2 => ({ d with lts := s2 }, "ok")
            | none => mism "waited: not enabled"
          | none => mism s!"waited: rank {v} is not a running worker of the model"
        else mism s!"waited: fin={fpcName f} state={s.state}"
      | "stopped" =>
        -- f2 (back to worker 0) and f3 (joins) happen inside one segment
        if f = .f2 then
          match InitOnce.step d.ncpu s .finStep with
          | some s1 =>
            if s1.mainOn = v.toNat ∧ v = 0 then
              match InitOnce.step d.ncpu s1 .finStep with
              | some s2 => ({ d with lts := s2 }, "ok")
              | none => mism "stopped: not enabled"
            else mism s!"stopped: impl rank={v}, model rank={s1.mainOn}"
          | none => mism "stopped: not enabled"
        else mism s!"stopped: fin={fpcName f}"
      | "done" => if f = .f4 then adv .finStep (fun s' => if s'.state = sUninit then none else some "fdone: state") else mism s!"fdone: fin={fpcName f}"
      | "ret" => if f = .idle then (d, "ok") else mism s!"fret: fin={fpcName f}"
      | _ => mism "unknown fini point"
    | none => mism "bad event"
  | _ => mism "bad event"

/-- `r` full rounds of the workers' barrier on the model, arrivals in the order 1..n rotated by the
    round number, the last arriver flipping, then everybody else waking; `none` if a step is disabled -/
def wbRounds (n r : Nat) : Option WBarrier.St :=
  let parts := (List.range n).map (· + 1)
  (List.range r).foldl (fun (os : Option WBarrier.St) k =>
    match os with
    | none => none
    | some s0 =>
      let order := (List.range n).map (fun i => (i + k) % n + 1)
      let arrivals := order.map WBarrier.Lbl.arrive
      let wakes := (order.take (n - 1)).map WBarrier.Lbl.wake
      runs WBarrier.step s0 (arrivals ++ wakes)) (some (WBarrier.init parts))

def step (d : DSt) (line : String) : DSt × String :=
  let w := Driver.words line
  match w with
  | ["wbinit", gp, g0, g1, n] =>
    let b := WBarrier.barrierInit { n := 0, phase := gp.toNat!, cur0 := g0.toNat!, cur1 := g1.toNat! } n.toNat!
    (d, s!"wb n={b.n} phase={b.phase} cur={b.cur0},{b.cur1}")
  | ["wbrounds", n, r] =>
    match wbRounds n.toNat! r.toNat! with
    | some s => (d, s!"wb n={s.n} phase={s.phase} cur={s.cur 0},{s.cur 1} rounds={s.gen} ok")
    | none => (d, "wb model-stuck")
  | ["consts"] =>
    (d, s!"consts defStack={defStack} defGuard={defGuard} defBind={defBind} defChildFirst={defChildFirst} nMaxCpus={nMaxCpus} uninit={sUninit} initializing={sInitializing} initialized={sInitialized} randMax={(2:Nat)^31 - 1}")
  | ["atoi", s] => (d, s!"atoi {match dec s with | some v => atoi v | none => 0}")
  | ["stk", s] => (d, s!"stk {stacksize (dec s)}")
  | ["stkpinned", s] => (d, s!"stk {stacksizePinned (dec s)}")
  | ["guard", s] => (d, s!"guard {guardsize (dec s)}")
  | ["nw", s, o, n] =>
    match n.toInt? with
    | some n => let r := numWorkers (dec s) (dec o) n; (d, s!"nw {r.1} warn={b2n r.2}")
    | none => (d, "bad-op")
  | ["bind", s] => (d, s!"bind {bindWorkers (dec s)} on={b2n (bindingOn (dec s))}")
  | ["cf", s] => (d, s!"cf {childFirst (dec s)}")
  | ["cpulist", cap, s] =>
    match cap.toNat? with
    | some cap =>
      match parseCpuList false (dec s) cap with
      | .ret r wr dg => (d, s!"ret={r} written={csv wr} diag={showDiag dg}")
      | .abort => (d, "abort")
      | .overrun => (d, "overrun")
    | none => (d, "bad-op")
  | ["cpulistpinned", cap, s] =>
    match cap.toNat? with
    | some cap =>
      match parseCpuList true (dec s) cap with
      | .ret r wr dg => (d, s!"ret={r} written={csv wr} diag={showDiag dg}")
      | .abort => (d, "abort")
      | .overrun => (d, "overrun")
    | none => (d, "bad-op")
  | ["avail", n, mask, s] =>
    match n.toNat? with
    | some n =>
      match availableCpus false (dec s) n (parseMask mask) with
      | some a => ({ d with avail := some a },
          s!"avail n={a.workerCpu.length} cpus={csv a.workerCpu} malformed={b2n a.malformed} nocpus={b2n a.noCpus}")
      | none => (d, "abort")
    | none => (d, "bad-op")
  | ["wcpu", r] =>
    match r.toNat?, d.avail with
    | some r, some a => (d, s!"wcpu {workerCpu a r}")
    | _, _ => (d, "bad-op")
  | ["victim", n, rank, _seed, raw] =>
    match n.toInt?, rank.toInt?, raw.toNat? with
    | some n, some rank, some raw =>
      (d, s!"victim raw={raw} idx={match victim n rank raw with | some i => i | none => -1}")
    | _, _, _ => (d, "bad-op")
  -- sequential histories (harness/init_proc.c) ------------------------------------------------
  | ["ncpu", n] =>
    match n.toInt? with
    | some n => ({ d with ncpu := n }, "ok")
    | none => (d, "bad-op")
  | ["setenv", name, v] =>
    match setEnvVar d.lts.environ name (dec v) with
    | some e => ({ d with lts := { d.lts with environ := e } }, "ok")
    | none => (d, "bad-op")
  | "init_ex" :: n :: rest =>
    match n.toInt? with
    | some n =>
      let a0 : GAttr := { gattrDefault d.lts.environ d.ncpu with nWorkers := n }
      let a : GAttr := match rest with
        | [stk] => { a0 with stacksize := stk.toNat?.getD a0.stacksize }
        | _ => a0
      match InitOnce.step d.ncpu d.lts (.callInit 0 (some a)) with
      | some s1 => let s2 := runCall d.ncpu s1 0 8; ({ d with lts := s2 }, "init " ++ summary s2)
      | none => (d, "not-enabled")
    | none => (d, "bad-op")
  | ["init"] =>
    match InitOnce.step d.ncpu d.lts (.callInit 0 none) with
    | some s1 => let s2 := runCall d.ncpu s1 0 8; ({ d with lts := s2 }, "init " ++ summary s2)
    | none => (d, "not-enabled")
  | ["implicit"] =>
    match InitOnce.step d.ncpu d.lts (.callEnsure 0) with
    | some s1 => let s2 := runCall d.ncpu s1 0 8; ({ d with lts := s2 }, "init " ++ summary s2)
    | none => (d, "not-enabled")
  | ["setglobal", n] =>
    match n.toInt? with
    | some n =>
      match InitOnce.step d.ncpu d.lts (.setGlobal n) with
      | some s1 => ({ d with lts := s1 }, "ok")
      | none => (d, "not-enabled")
    | none => (d, "bad-op")
  | ["ranks", t] =>
    -- every thread must report the model's worker count and a rank in [0, n)
    match t.toNat? with
    | some t => (d, s!"ranks n={t + 1} inrange=1 nwsame=1 nw={d.lts.gattr.nWorkers}")
    | none => (d, "bad-op")
  | ["migrate"] => (d, "migrate done")
  | ["fini"] =>
    match InitOnce.step d.ncpu d.lts .callFini with
    | some s1 =>
      let was := s1.state
      let s2 := runFini d.ncpu s1 8
      ({ d with lts := s2 }, s!"fini really={reallyTotal s2} threads={osThreads s2} stoprank={if was = sUninit then -1 else (0 : Int)}")
    | none => (d, "not-enabled")
  -- controlled interleavings (harness/init_conc.c) -------------------------------------------
  | ["threads", k] =>
    match k.toNat? with
    | some k => ({ d with k := k }, "ok")
    | none => (d, "bad-op")
  | "winner" :: wn :: args =>
    -- a free-running round: the elected participant's call first, then everybody else's
    match wn.toInt? with
    | some wn =>
      let order : List Nat := (if wn ≥ 0 then [wn.toNat] else []) ++ (List.range args.length).filter (fun (p : Nat) => decide ((p : Int) ≠ wn))
      let s' := order.foldl (fun (s : St) p =>
        let a : Int := (args.getD p "0").toInt?.getD 0
        let l : Label := if a < 0 then .callEnsure p else if a = 0 then .callInit p none
          else .callInit p (some { gattrDefault s.environ d.ncpu with nWorkers := a })
        match InitOnce.step d.ncpu s l with
        | some s1 => runCall d.ncpu s1 p 8
        | none => s) d.lts
      ({ d with lts := s' }, "ok")
    | none => (d, "bad-op")
  | "ev" :: _ => accept d w
  | "fev" :: _ => accept d w
  | ["end"] =>
    let s := d.lts
    let nw : Int := if s.state = sInitialized then s.gattr.nWorkers else -1
    (d, s!"end nw={nw} really={reallyTotal s} extra={if s.workers.length = 0 then 0 else s.workers.length - 1} state={s.state}")
  | _ => (d, "bad-op")

def run (_args : List String) : IO UInt32 := do
  let stdin ← IO.getStdin
  let _ ← Driver.forLines stdin ({} : DSt) fun s line => do
    let (s', out) := step s line
    IO.println out
    pure s'
  return 0

end Driver.Env
