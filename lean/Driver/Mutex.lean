import Driver.Util
/-! `drv_mutex`: stub, to be filled in -/
namespace Driver.Mutex
def run (_args : List String) : IO UInt32 := do
  IO.eprintln "drv_mutex: not implemented"
  return 2
end Driver.Mutex
