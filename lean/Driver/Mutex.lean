import MythVerif.Model.Mutex
import Driver.Util
/-! `drv_mutex`: trace acceptor.  Replays a controller trace of a whole-library run on the mutex
model: every mutex event must be an enabled model step of that thread with the same observed
value.  Objects are declared by `obj <name> mutex` lines; events on other objects are skipped. -/
namespace Driver.Mutex
open MythVerif MythVerif.Mutex

def toLbl (e : Driver.Ev) : Option Lbl :=
  let tb := Driver.parseTag e.b
  match e.pt with
  | "MX_LOCK_READ" => e.cur.map (fun t => .lockRead t e.v.toNat)
  | "MX_LOCK_CAS1" => e.cur.map (fun t => .lockCas1 t (e.v == 1))
  | "MX_LOCK_CAS2" => e.cur.map (fun t => .lockCas2 t (e.v == 1))
  | "BLOCK_BEGIN" => tb.map (fun t => .blockBegin t)
  | "SQ_ENQ" => tb.map (fun t => .cbEnq t)
  | "MX_TRY_READ" => e.cur.map (fun t => .tryRead t e.v.toNat)
  | "MX_TRY_CAS" => e.cur.map (fun t => .tryCas t (e.v == 1))
  | "MX_UNLOCK_READ" => e.cur.map (fun t => .unlockRead t e.v.toNat)
  | "MX_UNLOCK_CAS2" => e.cur.map (fun t => .unlockCas2 t (e.v == 1))
  | "MX_UNLOCK_CAS0" => e.cur.map (fun t => .unlockCas0 t (e.v == 1))
  | "SQ_DEQ" => match e.cur, tb with       -- reported inside the queue's critical section
      | some t, some x => some (.wakeDeq t x)
      | some t, none => if e.b == "-" then some (.wakeSpin t) else none
      | _, _ => none
  | "MX_CLEAR_BIT" => e.cur.map (fun t => .clearBit t)
  | "WAKE_PUSH" => tb.map (fun x => .wakePush x)
  | _ => none

def relevant (pt : String) : Bool :=
  pt.startsWith "MX_" || pt == "BLOCK_BEGIN" || pt == "SQ_ENQ" || pt == "SQ_DEQ" || pt == "WAKE_PUSH"

structure Acc where
  objs : List (String × St) := []
  line : Nat := 0
  accepted : Nat := 0
  err : Option String := none

def showPc : PC → String
  | .idle => "idle" | .lretry => "lretry" | .lr s => s!"lr{s}" | .ann => "ann" | .annSw => "annSw"
  | .asleep => "asleep" | .hold => "hold" | .tretry => "tretry" | .tr s => s!"tr{s}"
  | .uretry => "uretry" | .ur s => s!"ur{s}" | .uw => "uw" | .uc x => s!"uc{x}"

def feed (acc : Acc) (line : String) : Acc :=
  if acc.err.isSome then acc else
  let acc := { acc with line := acc.line + 1 }
  match Driver.words line with
  | ["obj", name, "mutex"] => { acc with objs := (name, init) :: acc.objs }
  | _ =>
  match Driver.parseEv line with
  | none => acc
  | some e =>
    if !relevant e.pt then acc else
    match acc.objs.find? (·.1 == e.a) with
    | none => acc      -- an object this acceptor does not own
    | some (name, st) =>
      match toLbl e with
      | none => { acc with err := some s!"MISMATCH line {acc.line}: cannot attribute `{line.trimAscii.toString}` to a thread" }
      | some l =>
        match step st l with
        | some st' =>
          { acc with objs := acc.objs.map (fun p => if p.1 == name then (name, st') else p),
                     accepted := acc.accepted + 1 }
        | none =>
          { acc with err := some s!"MISMATCH line {acc.line}: model cannot do `{line.trimAscii.toString}`: word={st.word} q={st.q} pc[actor]={showPc (st.pc l.actor)}" }

def run (_args : List String) : IO UInt32 := do
  let stdin ← IO.getStdin
  let acc ← Driver.forLines stdin ({} : Acc) fun a line => pure (feed a line)
  match acc.err with
  | some e => IO.println e; return 0
  | none => IO.println s!"accepted {acc.accepted}"; return 0

end Driver.Mutex
