import Driver.Util
/-! `drv_uncond`: stub, to be filled in -/
namespace Driver.Uncond
def run (_args : List String) : IO UInt32 := do
  IO.eprintln "drv_uncond: not implemented"
  return 2
end Driver.Uncond
