import MythVerif.Model.Uncond
import Driver.Util
/-! `drv_uncond`: trace acceptor.  Replays a controller trace of a whole-library run on the
uncondition-variable model running side by side with the protocol monitor: every event on a
variable declared by `obj <name> uncond` must be an enabled step of the library model *and* be
accepted by `proto` (so the test program itself is checked to follow the documented protocol), with
the same observed value (`u->th` read by the signaler, the thread it pushes).

* library points: `BLOCK_BEGIN`, `BLOCK_CB_BEGIN`, `BLOCK_CB_ENQ`, `SPIN_UC_SIG_READ`, `UC_SIG_READ`,
  `UC_SIG_CLEAR`, `WAKE_PUSH` (`BLOCK_CB_END` carries no access);
* program notes: `uc_announce` (after the user-level atomic step that marks the waiter, before
  `myth_uncond_wait`), `uc_claim` (after the atomic step that saw and cleared the mark, before
  `myth_uncond_signal`), `uc_sigret` (signal returned), `uc_resumed` (wait returned).

At the end of a complete trace the monitor must be `free` and every thread idle. -/
namespace Driver.Uncond
open MythVerif MythVerif.Uncond

structure Obj where
  name : String
  st : St
  ph : Phase
  tids : List Nat := []
  early : Nat := 0       -- rendezvous in which the signaler had to spin (signal before the waiter published)
  rdv : Nat := 0         -- completed rendezvous
  spun : Bool := false

structure Acc where
  objs : List Obj := []
  line : Nat := 0
  accepted : Nat := 0
  err : Option String := none
  verdict : Bool := false

def showPc : PC → String
  | .idle => "idle" | .ann => "ann" | .sw => "sw" | .cb => "cb" | .asleep => "asleep" | .runnable => "runnable"
  | .sg => "sg" | .sc x => s!"sc{x}" | .sp x => s!"sp{x}" | .sd => "sd"

def showPh : Phase → String
  | .free => "free" | .announced w => s!"announced({w})" | .claimed w q => s!"claimed({w},{q})"

def showTh : Option Nat → String
  | none => "0" | some x => s!"t{x}"

def toLbl (pt : String) (cur : Option Nat) (tb : Option Nat) : Option Lbl :=
  match pt with
  | "uc_announce" => cur.map .announce
  | "BLOCK_BEGIN" => tb.map .blockBegin
  | "BLOCK_CB_BEGIN" => tb.map .cbBegin
  | "BLOCK_CB_ENQ" => tb.map .cbPublish
  | "uc_resumed" => cur.map .resume
  | "uc_claim" => cur.map .claim
  | "SPIN_UC_SIG_READ" => cur.map .sigSpin
  | "UC_SIG_READ" => match cur, tb with
      | some t, some x => some (.sigRead t x)
      | _, _ => none
  | "UC_SIG_CLEAR" => cur.map .sigClear
  | "WAKE_PUSH" => match cur, tb with
      | some t, some x => some (.sigPush t x)
      | _, _ => none
  | "uc_sigret" => cur.map .sigRet
  | _ => none

def relevant (pt : String) : Bool :=
  ["uc_announce", "BLOCK_BEGIN", "BLOCK_CB_BEGIN", "BLOCK_CB_ENQ", "uc_resumed", "uc_claim",
   "SPIN_UC_SIG_READ", "UC_SIG_READ", "UC_SIG_CLEAR", "WAKE_PUSH", "uc_sigret"].contains pt

def stepObj (acc : Acc) (line : String) (oname pt : String) (cur tb : Option Nat) : Acc :=
  match acc.objs.find? (·.name == oname) with
  | none => acc      -- an object this acceptor does not own
  | some o =>
    match toLbl pt cur tb with
    | none => { acc with err := some s!"MISMATCH line {acc.line}: cannot attribute `{line.trimAscii.toString}` to a thread" }
    | some l =>
      match step o.st l, proto o.ph l with
      | some st', some ph' =>
        let t := l.actor
        let o' : Obj := { o with st := st', ph := ph', tids := if o.tids.contains t then o.tids else t :: o.tids,
                                  spun := match l with | .sigSpin _ => true | .claim _ => false | _ => o.spun,
                                  early := match l with | .sigRead _ _ => if o.spun then o.early + 1 else o.early | _ => o.early,
                                  rdv := match l with | .resume _ => o.rdv + 1 | _ => o.rdv }
        { acc with objs := acc.objs.map (fun p => if p.name == oname then o' else p), accepted := acc.accepted + 1 }
      | none, _ =>
        { acc with err := some s!"MISMATCH line {acc.line}: model cannot do `{line.trimAscii.toString}`: th={showTh o.st.th} runq={o.st.runq} phase={showPh o.ph} pc[{l.actor}]={showPc (o.st.pc l.actor)}" }
      | some _, none =>
        { acc with err := some s!"MISMATCH line {acc.line}: the program leaves the usage protocol at `{line.trimAscii.toString}`: phase={showPh o.ph}" }

def feed (acc : Acc) (line : String) : Acc :=
  if acc.err.isSome then acc else
  let acc := { acc with line := acc.line + 1 }
  match Driver.words line with
  | ["obj", name, "uncond"] => { acc with objs := { name := name, st := init, ph := .free } :: acc.objs }
  | ["verdict", _] => { acc with verdict := true }
  | ["note", _, cur, pt, oname] =>
      if relevant pt then stepObj acc line oname pt cur.toNat? none else acc
  | _ =>
  match Driver.parseEv line with
  | none => acc
  | some e =>
    if relevant e.pt then stepObj acc line e.a e.pt e.cur (Driver.parseTag e.b) else acc

def finalCheck (acc : Acc) : Option String :=
  if acc.verdict then none else
  acc.objs.findSome? fun o =>
    if o.ph != .free then some s!"MISMATCH at end of trace: rendezvous on {o.name} still in flight (phase={showPh o.ph})"
    else match o.tids.find? (fun t => o.st.pc t != .idle) with
      | some t => some s!"MISMATCH at end of trace: thread {t} is still inside wait/signal on {o.name} (pc={showPc (o.st.pc t)})"
      | none => none

def run (_args : List String) : IO UInt32 := do
  let stdin ← IO.getStdin
  let acc ← Driver.forLines stdin ({} : Acc) fun a line => pure (feed a line)
  match acc.err with
  | some e => IO.println e; return 0
  | none =>
    match finalCheck acc with
    | some e => IO.println e; return 0
    | none =>
      let rdv := acc.objs.foldl (fun n o => n + o.rdv) 0
      let early := acc.objs.foldl (fun n o => n + o.early) 0
      IO.println s!"accepted {acc.accepted} rendezvous={rdv} early={early}"; return 0

end Driver.Uncond
