import Driver.Cond
def main (args : List String) : IO UInt32 := Driver.Cond.run args
