import Driver.Util
/-! `drv_cond`: stub, to be filled in -/
namespace Driver.Cond
def run (_args : List String) : IO UInt32 := do
  IO.eprintln "drv_cond: not implemented"
  return 2
end Driver.Cond
