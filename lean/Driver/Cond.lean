import MythVerif.Model.Cond
import Driver.Util
/-! `drv_cond`: trace acceptor for condition variables.  `obj oN cond oM` declares a condition
variable used with mutex `oM`.  Mutex acquisitions / releases (the instants the lock bit is set
/ cleared, as established by C04) drive the abstract `holder`. -/
namespace Driver.Cond
open MythVerif MythVerif.Cond

structure CObj where
  name : String
  mutex : String
  st : St

structure Acc where
  objs : List CObj := []
  line : Nat := 0
  accepted : Nat := 0
  err : Option String := none

def showPc : PC → String
  | .idle => "idle" | .w0 => "w0" | .wSw => "wSw" | .wQ => "wQ" | .wWoken => "wWoken"
  | .sg => "sg" | .sgP x => s!"sgP{x}" | .bc => "bc" | .bcP x => s!"bcP{x}"

def parseOpt (s : String) : Option (Option Nat) :=
  if s == "-" then some none else (Driver.parseTag s).map some

/-- labels an event denotes for one condition object (possibly none: event not about it) -/
def toLbl (o : CObj) (e : Driver.Ev) : Option (Option Lbl) :=
  let tb := Driver.parseTag e.b
  if e.a == o.mutex then
    match e.pt, e.cur with
    | "MX_LOCK_CAS1", some t => if e.v == 1 then some (some (.acquire t)) else some none
    | "MX_TRY_CAS", some t => if e.v == 1 then some (some (.acquire t)) else some none
    | "MX_UNLOCK_CAS0", some t =>
        if e.v == 1 then some (some (if o.st.cbh t then .cbRelease t else .release t)) else some none
    | "MX_CLEAR_BIT", some t => some (some (if o.st.cbh t then .cbRelease t else .release t))
    | "MX_LOCK_CAS1", none | "MX_TRY_CAS", none | "MX_UNLOCK_CAS0", none | "MX_CLEAR_BIT", none => none
    | _, _ => some none
  else if e.a == o.name then
    match e.pt with
    | "COND_WAIT" => e.cur.map (fun t => some (.waitStart t))
    | "BLOCK_BEGIN" => tb.map (fun t => some (.blockBegin t))
    | "SQ_ENQ" => tb.map (fun t => some (.cbEnq t))
    | "COND_SIGNAL" => e.cur.map (fun t => some (.sigStart t))
    | "COND_BCAST" => e.cur.map (fun t => some (.bcStart t))
    | "SQ_DEQ" =>
        match e.cur, parseOpt e.b with
        | some t, some x => some (some (if o.st.pc t == .sg then .sigDeq t x else .bcDeq t x))
        | _, _ => none
    | "WAKE_PUSH" =>
        match e.cur, tb with
        | some t, some x => some (some (.push t x))
        | _, _ => none
    | _ => some none
  else some none

def feed (acc : Acc) (line : String) : Acc :=
  if acc.err.isSome then acc else
  let acc := { acc with line := acc.line + 1 }
  match Driver.words line with
  | ["obj", name, "cond", m] => { acc with objs := { name := name, mutex := m, st := init } :: acc.objs }
  | _ =>
  match Driver.parseEv line with
  | none => acc
  | some e =>
    acc.objs.foldl (fun acc o =>
      if acc.err.isSome then acc else
      match toLbl o e with
      | none => { acc with err := some s!"MISMATCH line {acc.line}: cannot attribute `{line.trimAscii.toString}` to a thread" }
      | some none => acc
      | some (some l) =>
        match step o.st l with
        | some st' =>
          { acc with objs := acc.objs.map (fun p => if p.name == o.name then { p with st := st' } else p),
                     accepted := acc.accepted + 1 }
        | none =>
          { acc with err := some s!"MISMATCH line {acc.line}: cond model {o.name} cannot do `{line.trimAscii.toString}`: holder={o.st.holder} cq={o.st.cq} pc[actor]={showPc (o.st.pc l.actor)}" })
      acc

def run (_args : List String) : IO UInt32 := do
  let stdin ← IO.getStdin
  let acc ← Driver.forLines stdin ({} : Acc) fun a line => pure (feed a line)
  match acc.err with
  | some e => IO.println e; return 0
  | none => IO.println s!"accepted {acc.accepted}"; return 0

end Driver.Cond
