import Driver.Tls

def main (args : List String) : IO UInt32 := do
  match args with
  | ["tls"] => Driver.Tls.run
  | _ =>
    IO.eprintln s!"mythdrv: unknown component {args}"
    return 2
