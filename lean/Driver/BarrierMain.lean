import Driver.Barrier
def main (args : List String) : IO UInt32 := Driver.Barrier.run args
