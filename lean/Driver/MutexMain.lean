import Driver.Mutex
def main (args : List String) : IO UInt32 := Driver.Mutex.run args
