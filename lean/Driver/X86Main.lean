import Driver.X86
def main (args : List String) : IO UInt32 := Driver.X86.run args
