import MythVerif.Model.Once
import Driver.Util
/-! `drv_once`: trace acceptor.  Replays a controller trace of a whole-library run on the once
model: every access to a once-control (`obj <name> once`) must be an enabled model step of that
thread with the same observed value.

* `ONCE_READ v`, `ONCE_CAS ok`, `ONCE_DONE`, `ONCE_WAIT_READ v` (also in its `SPIN_` form, which the
  program uses for unsuccessful wait-loop reads) are the library's MYTH_VERIF_POINTs;
* `note … once_rstep <obj>` / `note … once_rend <obj>` are written by the program's init routine at
  each of its steps and at its end (the routine is program code);
* `myth_yield` inside the wait loop leaves no event when no other thread is runnable, so the `yield`
  label is inserted by the acceptor in front of a wait-loop read of a thread the model has at `yld`.

At the end of the trace every call must have returned (`pc = idle` for every thread seen) unless
the trace ends with a deadlock verdict. -/
namespace Driver.Once
open MythVerif MythVerif.Once

structure Obj where
  name : String
  st : St
  tids : List Nat := []

structure Acc where
  objs : List Obj := []
  line : Nat := 0
  accepted : Nat := 0
  err : Option String := none
  verdict : Bool := false

def showPc : PC → String
  | .idle => "idle" | .rd => "rd" | .run => "run" | .fin => "fin" | .wait => "wait" | .yld => "yld"

def applyLbls (st : St) : List Lbl → Option St
  | [] => some st
  | l :: ls => match step st l with
    | some st' => applyLbls st' ls
    | none => none

/-- labels for one event of thread `t` on a control whose model state is `st` -/
def toLbls (st : St) (pt : String) (t : Nat) (v : Int) : Option (List Lbl) :=
  match pt with
  | "ONCE_READ" => some [.read t v.toNat]
  | "ONCE_CAS" => some [.cas t (v == 1)]
  | "ONCE_DONE" => some [.storeDone t]
  | "ONCE_WAIT_READ" | "SPIN_ONCE_WAIT_READ" =>
      if st.pc t = .yld then some [.yield t, .waitRead t v.toNat] else some [.waitRead t v.toNat]
  | "once_rstep" => some [.routineStep t]
  | "once_rend" => some [.routineEnd t]
  | _ => none

def stepObj (acc : Acc) (line : String) (oname pt : String) (cur : Option Nat) (v : Int) : Acc :=
  match acc.objs.find? (·.name == oname) with
  | none => acc      -- an object this acceptor does not own
  | some o =>
    match cur with
    | none => { acc with err := some s!"MISMATCH line {acc.line}: cannot attribute `{line.trimAscii.toString}` to a thread" }
    | some t =>
      match toLbls o.st pt t v with
      | none => acc
      | some ls =>
        match applyLbls o.st ls with
        | some st' =>
          let o' : Obj := { o with st := st', tids := if o.tids.contains t then o.tids else t :: o.tids }
          { acc with objs := acc.objs.map (fun p => if p.name == oname then o' else p),
                     accepted := acc.accepted + ls.length }
        | none =>
          { acc with err := some s!"MISMATCH line {acc.line}: model cannot do `{line.trimAscii.toString}`: state={o.st.state} execs={o.st.execs} pc[{t}]={showPc (o.st.pc t)}" }

def feed (acc : Acc) (line : String) : Acc :=
  if acc.err.isSome then acc else
  let acc := { acc with line := acc.line + 1 }
  match Driver.words line with
  | ["obj", name, "once"] => { acc with objs := { name := name, st := init } :: acc.objs }
  | ["verdict", _] => { acc with verdict := true }
  | ["note", _, cur, pt, oname] =>
      if pt == "once_rstep" || pt == "once_rend" then stepObj acc line oname pt cur.toNat? 0 else acc
  | _ =>
  match Driver.parseEv line with
  | none => acc
  | some e =>
    if e.pt.startsWith "ONCE_" || e.pt.startsWith "SPIN_ONCE_" then stepObj acc line e.a e.pt e.cur e.v
    else acc

/-- every call seen in a complete trace has returned, the routine ran once per used control -/
def finalCheck (acc : Acc) : Option String :=
  if acc.verdict then none else
  acc.objs.findSome? fun o =>
    match o.tids.find? (fun t => o.st.pc t != .idle) with
    | some t => some s!"MISMATCH at end of trace: thread {t} is still inside myth_once on {o.name} (pc={showPc (o.st.pc t)})"
    | none =>
      if !o.tids.isEmpty && (o.st.execs != 1 || o.st.state != sDone) then
        some s!"MISMATCH at end of trace: control {o.name} was used but execs={o.st.execs} state={o.st.state}"
      else none

def run (_args : List String) : IO UInt32 := do
  let stdin ← IO.getStdin
  let acc ← Driver.forLines stdin ({} : Acc) fun a line => pure (feed a line)
  match acc.err with
  | some e => IO.println e; return 0
  | none =>
    match finalCheck acc with
    | some e => IO.println e; return 0
    | none => IO.println s!"accepted {acc.accepted}"; return 0

end Driver.Once
