import Driver.Util
/-! `drv_once`: stub, to be filled in -/
namespace Driver.Once
def run (_args : List String) : IO UInt32 := do
  IO.eprintln "drv_once: not implemented"
  return 2
end Driver.Once
