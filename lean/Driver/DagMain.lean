import Driver.Dag
def main (args : List String) : IO UInt32 := Driver.Dag.run args
