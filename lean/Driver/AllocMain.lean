import Driver.Alloc
def main (args : List String) : IO UInt32 := Driver.Alloc.run args
