import MythVerif.Model.Time
import Driver.Util
/-! `drv_time`: the C20 model (`MythVerif.Time`) behind the line protocol of harness/time_unit.c.

    add AS AN BS BN | gt AS AN BS BN
    nanosleep S N … | r0s r0n r1s r1n …          usleep U … | …        sleep S … | …
    timedlock S N … | readings | outcomes        timedjoin S N … | readings | outcomes
  (`outcomes`: a word over b/g, attempt k succeeds iff its k-th letter is g; words containing `=`
  are options of the harness and are ignored).  Clock stream: the readings, then
  (INT64_MAX, 999999999) for ever; the run is cut (`ret=none`) after `len + 3` readings. -/
namespace Driver.Time
open MythVerif.Time

def far : Ts := { sec := tMax, nsec := 999999999 }

def parseReadings (ws : List String) : Option (List Ts) :=
  match ws with
  | [] => some []
  | [_] => none
  | a :: b :: rest =>
    match a.toInt?, b.toInt?, parseReadings rest with
    | some s, some n, some l => some ({ sec := s, nsec := n } :: l)
    | _, _, _ => none

def clockOf (l : List Ts) : Clock := fun i => l.getD i far

def showEv : MythVerif.Time.Ev → String
  | .clock _ => "C"
  | .yield => "Y"
  | .attempt true => "g"
  | .attempt false => "b"

def showRes : Option (Rc × List MythVerif.Time.Ev) → String
  | none => "ret=none"
  | some (r, tr) => s!"ret={r.toNat} trace={String.join (tr.map showEv)}"

def outcomes (w : String) : Nat → Bool :=
  let l := w.toList
  fun k => l.getD k 'b' == 'g'

def handle (line : String) : String :=
  let parts := line.splitOn "|"
  let head := (Driver.words (parts.getD 0 "")).filter (fun w => !(w.contains '='))
  let rd := parseReadings (Driver.words (parts.getD 1 ""))
  let oc := String.join (Driver.words (parts.getD 2 ""))
  match head, rd with
  | ["add", a, b, c, d], _ =>
    match a.toInt?, b.toInt?, c.toInt?, d.toInt? with
    | some a, some b, some c, some d => let r := add ⟨a, b⟩ ⟨c, d⟩; s!"{r.sec} {r.nsec}"
    | _, _, _, _ => "bad-op"
  | ["gt", a, b, c, d], _ =>
    match a.toInt?, b.toInt?, c.toInt?, d.toInt? with
    | some a, some b, some c, some d => if gt ⟨a, b⟩ ⟨c, d⟩ then "1" else "0"
    | _, _, _, _ => "bad-op"
  | ["nanosleep", s, n], some l =>
    match s.toInt?, n.toInt? with
    | some s, some n => showRes (nanosleep ⟨s, n⟩ (clockOf l) (l.length + 2))
    | _, _ => "bad-op"
  | ["usleep", u], some l =>
    match u.toNat? with
    | some u => showRes (usleep (u % 4294967296) (clockOf l) (l.length + 2))
    | none => "bad-op"
  | ["sleep", s], some l =>
    match s.toNat? with
    | some s => showRes (sleep (s % 4294967296) (clockOf l) (l.length + 2))
    | none => "bad-op"
  | ["timedlock", s, n], some l =>
    match s.toInt?, n.toInt? with
    | some s, some n => showRes (timedlock ⟨s, n⟩ (clockOf l) (outcomes oc) (l.length + 3))
    | _, _ => "bad-op"
  | ["timedjoin", s, n], some l =>
    match s.toInt?, n.toInt? with
    | some s, some n => showRes (timedjoin ⟨s, n⟩ (clockOf l) (outcomes oc) (l.length + 3))
    | _, _ => "bad-op"
  | _, _ => "bad-op"

def run (_args : List String) : IO UInt32 := do
  let stdin ← IO.getStdin
  let _ ← Driver.forLines stdin () fun _ line => do
    IO.println (handle line)
    pure ()
  return 0

end Driver.Time
