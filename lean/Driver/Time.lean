import Driver.Util
/-! `drv_time`: stub, to be filled in -/
namespace Driver.Time
def run (_args : List String) : IO UInt32 := do
  IO.eprintln "drv_time: not implemented"
  return 2
end Driver.Time
