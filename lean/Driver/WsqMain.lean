import Driver.Wsq
def main (args : List String) : IO UInt32 := Driver.Wsq.run args
