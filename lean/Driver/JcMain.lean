import Driver.Jc
def main (args : List String) : IO UInt32 := Driver.Jc.run args
