import Driver.Pth
def main (args : List String) : IO UInt32 := Driver.Pth.run args
