import Driver.Util
/-! `drv_join`: stub, to be filled in -/
namespace Driver.Join
def run (_args : List String) : IO UInt32 := do
  IO.eprintln "drv_join: not implemented"
  return 2
end Driver.Join
