import MythVerif.Model.Life
import Driver.Util
/-! `drv_join`: trace acceptor for the thread life cycle (C01 / C12 / C13).  One `Life` instance
per thread tag, created by the program's `note … new <tag> det <0|1>` line.  At the end every
instance must be terminal with record and stack released exactly once. -/
namespace Driver.Join
open MythVerif MythVerif.Life

structure Inst where
  tag : Nat
  st : St
  steps : Nat := 0

structure Acc where
  insts : List Inst := []
  line : Nat := 0
  accepted : Nat := 0
  err : Option String := none

def showT : TPc → String
  | .created => "created" | .run => "run" | .fBegin => "fBegin" | .fRead w => s!"fRead({w})"
  | .fSwitched w => s!"fSwitched({w})" | .fFreeing => "fFreeing" | .fDone => "fDone"
def showR : RPc → String
  | .idle => "idle" | .jBlock => "jBlock" | .jSw => "jSw" | .asleep => "asleep" | .jSpin => "jSpin"
  | .jFree v => s!"jFree({v})" | .dLockW => "dLockW" | .dSpin => "dSpin" | .dFree => "dFree"
  | .done v => s!"done({v})" | .ddone => "ddone" | .ddoneSet => "ddoneSet"

def parseOptTag (s : String) : Option (Option Nat) :=
  if s == "-" then some none else (Driver.parseTag s).map some

/-- (target tag, labels to apply in order) -/
def toLbls (acc : Acc) (e : Driver.Ev) : Option (Nat × List Lbl) :=
  let ta := Driver.parseTag e.a
  let tb := Driver.parseTag e.b
  let inst (t : Nat) := acc.insts.find? (·.tag == t)
  match e.pt with
  | "FIN_BEGIN" => ta.map (fun t => (t, [.tFinish e.v.toNat]))
  | "FIN_LOCKED" => match ta, parseOptTag e.b with
      | some t, some w => some (t, [.tLockRead w])
      | _, _ => none
  | "FIN_STACK_FREE" => ta.map (fun t => (t, [.tStackFree]))
  | "FIN_PUBLISH" => ta.map (fun t => (t, [.tPublish (e.v == 1)]))
  | "JOIN_LOCKED" => match ta, tb with
      | some t, some j => some (t, [.jLocked j (e.v == 1)])
      | _, _ => none
  | "JOIN_CB_SET" => match ta, tb with
      | some t, some j =>
          match inst t with
          | some i => some (t, if i.st.pc j == .jBlock then [.jSwitch j, .jSet j] else [.jSet j])
          | none => some (t, [.jSet j])
      | _, _ => none
  | "SPIN_JOIN_SPIN" => match ta, e.cur with
      | some t, some j => some (t, [.jSpin j])
      | _, _ => none
  | "JOIN_REAP" => match ta, e.cur with
      | some t, some j => some (t, [.jReap j e.v.toNat])
      | _, _ => none
  | "TRYJOIN_LOCKED" => match ta, e.cur with
      | some t, some j => some (t, [.tjLocked j (e.v == 1)])
      | _, _ => none
  | "DETACH_FAST" => match ta, e.cur with
      | some t, some j => some (t, [.dFast j (e.v == 1)])
      | _, _ => none
  | "DETACH_LOCKED" => match ta, e.cur with
      | some t, some j => some (t, [.dLocked j (e.v == 1)])
      | _, _ => none
  | "DESC_FREE" => match tb with
      | some t =>
          match inst t with
          | some i => if i.st.tpc == .fFreeing then some (t, [.tDescFree])
                      else match e.cur with
                        | some j => some (t, [.descFree j])
                        | none => none
          | none => some (t, [])
      | none => some (0, [])        -- release of a record that never got a tag (e.g. at shutdown)
  | _ => some (0, [])

def applyAll (st : St) : List Lbl → Option St
  | [] => some st
  | l :: ls => match step st l with
    | some st' => applyAll st' ls
    | none => none

def feed (acc : Acc) (line : String) : Acc :=
  if acc.err.isSome then acc else
  let acc := { acc with line := acc.line + 1 }
  match Driver.words line with
  | ["note", _, _, "new", t, "det", d] =>
    match t.toNat?, d.toNat? with
    | some t, some d => { acc with insts := { tag := t, st := init 0 (d == 1) } :: acc.insts.filter (·.tag != t) }
    | _, _ => acc
  | ["note", _, _, "start", t] =>
    match t.toNat? with
    | some t =>
      match acc.insts.find? (·.tag == t) with
      | some i =>
        match step i.st .tStart with
        | some st' => { acc with insts := acc.insts.map (fun p => if p.tag == t then { p with st := st', steps := p.steps + 1 } else p),
                                 accepted := acc.accepted + 1 }
        | none => { acc with err := some s!"MISMATCH line {acc.line}: start function of thread {t} entered again (tpc={showT i.st.tpc})" }
      | none => acc
    | none => acc
  | _ =>
  match Driver.parseEv line with
  | none => acc
  | some e =>
    match toLbls acc e with
    | none => { acc with err := some s!"MISMATCH line {acc.line}: cannot attribute `{line.trimAscii.toString}`" }
    | some (_, []) => acc
    | some (t, ls) =>
      match acc.insts.find? (·.tag == t) with
      | none => acc
      | some i =>
        match applyAll i.st ls with
        | some st' => { acc with insts := acc.insts.map (fun p => if p.tag == t then { p with st := st', steps := p.steps + ls.length } else p),
                                 accepted := acc.accepted + ls.length }
        | none =>
          let j := e.cur.getD 0
          { acc with err := some s!"MISMATCH line {acc.line}: life model of thread {t} cannot do `{line.trimAscii.toString}`: tpc={showT i.st.tpc} fin={i.st.fin} det={i.st.det} jt={i.st.jt} lock={i.st.lock} tlock={i.st.tlock} claimed={i.st.claimed} pc[{j}]={showR (i.st.pc j)}" }

def terminalErr (i : Inst) : Option String :=
  if i.st.tpc != .fDone then some s!"thread {i.tag} did not finish (tpc={showT i.st.tpc})"
  else if i.st.descFrees != 1 then some s!"record of thread {i.tag} released {i.st.descFrees} times (claimed={i.st.claimed})"
  else if i.st.stackFrees != 1 then some s!"stack of thread {i.tag} released {i.st.stackFrees} times"
  else if i.st.started != 1 then some s!"start function of thread {i.tag} entered {i.st.started} times"
  else none

def run (args : List String) : IO UInt32 := do
  let stdin ← IO.getStdin
  let acc ← Driver.forLines stdin ({} : Acc) fun a line => pure (feed a line)
  match acc.err with
  | some e => IO.println e; return 0
  | none =>
    if args.contains "noterminal" then IO.println s!"accepted {acc.accepted}"; return 0
    match acc.insts.findSome? terminalErr with
    | some e => IO.println s!"MISMATCH end: {e}"; return 0
    | none => IO.println s!"accepted {acc.accepted}"; return 0

end Driver.Join
