import MythVerif.Model.Bulk
import MythVerif.Model.ParFor
import MythVerif.Model.TaskGroup
import Driver.Util
/-!
`drv_bulk`: the C17 models behind the line protocol of `harness/bulk_unit.c` and
`harness/bulk_mtbb.cc`.

```
bulk various|many N IDS RES ATTRS FSTRIDE ASTRIDE ISTRIDE RSTRIDE ATSTRIDE FK
    -> sp:a:c:b at:OFF|- lf:I:FOFF:AOFF cl:K:AOFF … jn:a:c:b | ids=… | res=… | guard=0 ro=1 ret=0 done=N
pfor idx2|idx3|grain|range FIRST LAST STEP GRAIN
    -> c:I … | k:LO:HI … | returned      (or DIVERGES)
tg SIZE… [w SIZE… ]*            (one `wait` per `w` and one at the end)
    -> per round: occ=… blk=C:OFF,… ch=SIZE:USED,… ord=… joined=… after=0;256:0
```
Addresses are byte offsets from the base of their array (the model is run with all bases 0;
the effect constructors keep the arrays apart).  Events are printed in one-worker order; for
runs on several workers the check sorts the tokens of both sides.
-/
namespace Driver.Bulk
open MythVerif MythVerif.Bulk

def commaSep (l : List String) : String := ",".intercalate l

def dedupSorted (l : List Nat) : List Nat :=
  (l.toArray.qsort (· < ·)).toList.eraseDups

/-- index of the test function stored in function slot `j` of the harness' table -/
def fnOfSlot (j : Nat) : Nat := (j * 5 + 2) % 4

def bulkLine (kind : String) (n : Nat) (ids res attrs : Bool)
    (fs as is rs ats fk : Nat) : String :=
  let fs' := if kind == "many" then 0 else fs
  let p : Params := { ids := if ids then some 0 else none, results := if res then some 0 else none,
                      attrs := if attrs then some 0 else none, funcs := 0, args := 0,
                      idStride := is, attrStride := ats, funcStride := fs', argStride := as,
                      resStride := rs }
  match variousF p (fuelFor n) n with
  | none => "DIVERGES"
  | some t =>
    let evs := t.seq
    let fnIdx (faddr : Nat) : Nat :=
      if kind == "many" then fk else fnOfSlot (if fs' = 0 then 0 else faddr / fs')
    let toks := evs.flatMap fun
      | .split a c b => [s!"sp:{a}:{c}:{b}"]
      | .attr (some o) _ => [s!"at:{o}"]
      | .attr none _ => ["at:-"]
      | .call f x i => [s!"lf:{i}:{f}:{x}", s!"cl:{fnIdx f}:{x}"]
      | .joined a c b => [s!"jn:{a}:{c}:{b}"]
      | _ => []
    let idA := dedupSorted (evs.filterMap Eff.idAddr)
    let rsA := dedupSorted (evs.filterMap Eff.resAddr)
    Driver.joinSp toks ++ s!" | ids={commaSep (idA.map toString)} | res={commaSep (rsA.map toString)}" ++
      s!" | guard=0 ro=1 ret=0 done={n}"

open MythVerif.ParFor in
def pforLine (form : String) (first last step grain : Int) : String :=
  let fuel := ParFor.fuelFor (last - first)
  let r : Option (FJ ParFor.Ev) :=
    match form with
    | "idx2" => parFor first last fuel
    | "idx3" => parForStep first last step fuel
    | "grain" => parForGrain first last step grain fuel
    | "range" => rangeF grain fuel first last
    | _ => none
  match r with
  | none => "DIVERGES"
  | some t =>
    let cs := (ParFor.calls t.seq).map fun i => s!"c:{i}"
    let ks := (ParFor.chunks t.seq).map fun c => s!"k:{c.1}:{c.2}"
    Driver.joinSp cs ++ " | " ++ Driver.joinSp ks ++ " | returned"

open MythVerif.TaskGroup in
def tgRound (cfg : Cfg) (g : TG) (sizes : List Nat) : TG × String :=
  let g1 := g.runs cfg sizes
  let occ := g1.tasks.nodes.map fun n => toString n.length
  let blk := g1.blocks.map fun b => s!"{b.chunk}:{b.off}"
  let ch := g1.mem.chunks.map fun c => s!"{c.1}:{c.2}"
  let base := g.next
  let ord := g1.tasks.nodes.flatten.map fun t => toString (t - base)
  let (joined, g2) := g1.wait cfg
  let occ2 := g2.tasks.nodes.map fun n => toString n.length
  let ch2 := g2.mem.chunks.map fun c => s!"{c.1}:{c.2}"
  (g2, s!"occ={commaSep occ} blk={commaSep blk} ch={commaSep ch} ord={commaSep ord} " ++
       s!"joined={joined.length} after={commaSep occ2};{commaSep ch2}")

def splitOnW (ws : List String) : List (List String) :=
  ws.foldr (fun w acc =>
    match acc with
    | [] => if w == "w" then [[], []] else [[w]]
    | cur :: rest => if w == "w" then [] :: cur :: rest else (w :: cur) :: rest) [[]]

open MythVerif.TaskGroup in
def tgLine (cfg : Cfg) (ws : List String) : String :=
  let rounds := splitOnW ws
  let (_, outs) := rounds.foldl (fun (acc : TG × List String) r =>
    let sizes := r.filterMap String.toNat?
    let (g', o) := tgRound cfg acc.1 sizes
    (g', acc.2 ++ [o])) (TG.init cfg, [])
  " || ".intercalate outs

def b01 (s : String) : Bool := s != "0"

def step (cfg : TaskGroup.Cfg) (line : String) : String :=
  match Driver.words line with
  | ["bulk", kind, n, ids, res, attrs, fs, as, is, rs, ats, fk] =>
    match n.toNat?, fs.toNat?, as.toNat?, is.toNat?, rs.toNat?, ats.toNat?, fk.toNat? with
    | some n, some fs, some as, some is, some rs, some ats, some fk =>
      bulkLine kind n (b01 ids) (b01 res) (b01 attrs) fs as is rs ats fk
    | _, _, _, _, _, _, _ => "bad-op"
  | ["pfor", form, first, last, st, grain] =>
    match first.toInt?, last.toInt?, st.toInt?, grain.toInt? with
    | some f, some l, some s, some g => pforLine form f l s g
    | _, _, _, _ => "bad-op"
  | "tg" :: ws => tgLine cfg ws
  | _ => "bad-op"

/-- `drv_bulk [CAP CHUNK]`: the two compile-time constants of `task_group.h` as the harness
    reports them (default 8 and 256) -/
def run (args : List String) : IO UInt32 := do
  let cfg : TaskGroup.Cfg :=
    match args.map String.toNat? with
    | [some cap, some chunk] => { cap, chunk }
    | _ => {}
  let stdin ← IO.getStdin
  let _ ← Driver.forLines stdin () fun _ line => do
    IO.println (step cfg line)
    pure ()
  return 0

end Driver.Bulk
