import Driver.Util
/-! `drv_bulk`: stub, to be filled in -/
namespace Driver.Bulk
def run (_args : List String) : IO UInt32 := do
  IO.eprintln "drv_bulk: not implemented"
  return 2
end Driver.Bulk
