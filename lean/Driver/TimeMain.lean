import Driver.Time
def main (args : List String) : IO UInt32 := Driver.Time.run args
