import Driver.Once
def main (args : List String) : IO UInt32 := Driver.Once.run args
