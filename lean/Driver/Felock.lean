import Driver.Util
/-! `drv_felock`: stub, to be filled in -/
namespace Driver.Felock
def run (_args : List String) : IO UInt32 := do
  IO.eprintln "drv_felock: not implemented"
  return 2
end Driver.Felock
