import MythVerif.Model.Felock
import Driver.Util
/-! `drv_felock`: trace acceptor for the full/empty lock.  `obj oM felock oC0 oC1` declares a
felock whose mutex is named oM and whose two condition variables are oC0 / oC1. -/
namespace Driver.Felock
open MythVerif MythVerif.Felock

structure FObj where
  m : String
  c0 : String
  c1 : String
  st : St

structure Acc where
  objs : List FObj := []
  line : Nat := 0
  accepted : Nat := 0
  err : Option String := none

def showPc : PC → String
  | .idle => "idle" | .wl s => s!"wl{s}" | .chk s => s!"chk{s}" | .tw s => s!"tw{s}" | .slp s => s!"slp{s}"
  | .got s => s!"got{s}" | .pPut => "pPut" | .cTook => "cTook" | .ms1 v => s!"ms1({v})" | .ms2 => "ms2"
  | .lk => "lk" | .hp => "hp"

def parseOpt (s : String) : Option (Option Nat) :=
  if s == "-" then some none else (Driver.parseTag s).map some

def toLbls (o : FObj) (e : Driver.Ev) : Option (List Lbl) :=
  if e.a == o.m then
    match e.pt, e.cur with
    | "FE_WAL_BEGIN", some t => some [.walStart t e.v.toNat]
    | "FE_WAL_CHECK", some t => some [.check t e.v.toNat]
    | "FE_MARK", some t => some [.markSet t e.v.toNat]
    | "MX_LOCK_CAS1", some t | "MX_TRY_CAS", some t =>
        if e.v == 1 then some (if o.st.pc t == .idle then [.lockStart t, .acquire t] else [.acquire t]) else some []
    | "MX_UNLOCK_CAS0", some t =>
        if e.v == 1 then some (match o.st.pc t with | .tw _ => [.waitRel t] | _ => [.release t]) else some []
    | "MX_CLEAR_BIT", some t => some (match o.st.pc t with | .tw _ => [.waitRel t] | _ => [.release t])
    | "FE_WAL_BEGIN", none | "FE_WAL_CHECK", none | "FE_MARK", none | "MX_LOCK_CAS1", none | "MX_TRY_CAS", none
    | "MX_UNLOCK_CAS0", none | "MX_CLEAR_BIT", none => none
    | _, _ => some []
  else if e.a == o.c0 || e.a == o.c1 then
    match e.pt, e.cur, parseOpt e.b with
    | "SQ_DEQ", some t, some x => some [.sig t x]
    | "SQ_DEQ", _, _ => none
    | _, _, _ => some []
  else some []

def applyAll (st : St) : List Lbl → Option St
  | [] => some st
  | l :: ls => match step st l with
    | some st' => applyAll st' ls
    | none => none

def feedLbls (acc : Acc) (o : FObj) (ls : List Lbl) (line : String) (actor : Nat) : Acc :=
  match applyAll o.st ls with
  | some st' => { acc with objs := acc.objs.map (fun p => if p.m == o.m then { p with st := st' } else p),
                           accepted := acc.accepted + ls.length }
  | none => { acc with err := some s!"MISMATCH line {acc.line}: felock model {o.m} cannot do `{line.trimAscii.toString}`: holder={o.st.holder} status={o.st.status} cw0={o.st.cw 0} cw1={o.st.cw 1} slot={o.st.slot} pc[{actor}]={showPc (o.st.pc actor)}" }

def feed (acc : Acc) (line : String) : Acc :=
  if acc.err.isSome then acc else
  let acc := { acc with line := acc.line + 1 }
  match Driver.words line with
  | ["obj", m, "felock", c0, c1] => { acc with objs := { m := m, c0 := c0, c1 := c1, st := init } :: acc.objs }
  | ["note", _, cur, "put", m, x] =>
    match cur.toNat?, x.toNat?, acc.objs.find? (·.m == m) with
    | some t, some x, some o => feedLbls acc o [.put t x] line t
    | _, _, _ => acc
  | ["note", _, cur, "take", m, x] =>
    match cur.toNat?, x.toNat?, acc.objs.find? (·.m == m) with
    | some t, some x, some o => feedLbls acc o [.take t x] line t
    | _, _, _ => acc
  | _ =>
  match Driver.parseEv line with
  | none => acc
  | some e =>
    acc.objs.foldl (fun acc o =>
      if acc.err.isSome then acc else
      match toLbls o e with
      | none => { acc with err := some s!"MISMATCH line {acc.line}: cannot attribute `{line.trimAscii.toString}`" }
      | some [] => acc
      | some ls => feedLbls acc o ls line (e.cur.getD 0)) acc

def run (_args : List String) : IO UInt32 := do
  let stdin ← IO.getStdin
  let acc ← Driver.forLines stdin ({} : Acc) fun a line => pure (feed a line)
  match acc.err with
  | some e => IO.println e; return 0
  | none =>
    -- terminal: produced = slot ++ consumed is a theorem; report the counters
    let info := acc.objs.map (fun o => s!"{o.m}:produced={o.st.produced.length},consumed={o.st.consumed.length}")
    IO.println s!"accepted {acc.accepted} {Driver.joinSp info}"; return 0

end Driver.Felock
