import MythVerif.Model.PthProg
import MythVerif.Model.MutexStaticInit
import Driver.Util
/-! `drv_pth` (C16):

* `drv_pth eval`  — program descriptions (lines, each program terminated by a line `end`) on stdin;
  for each the result lines of `MythVerif.PthProg.Flat.eval` followed by `end`;
* `drv_pth tree`  — one fragment term per line in s-expression syntax (`r<int>` | `a<c>:<k>` |
  `( s P P )` | `( f P P )`, blank-separated tokens); prints `T <result line of the PROVED evaluator
  PthProg.eval>`, then the description text `PthProg.toFlat` of the term, then `end`;
* `drv_pth sinit` — trace acceptor: replays a schedule-controller trace of
  harness/progs/pth_sinit.c on the static-initialiser model `MythVerif.SInit`.  The program
  encodes the point id of the MYTH_VP_SINIT_* points (which harness/schedctl.h cannot name) into
  the value: `v' = (pt - 179) * 10^10 + (v + 1)` (values below 10^10 belong to other unnamed points).  Mutex-body events (`MX_*`) of a thread on a
  registered object must find that thread's handler returned (`pc = body`). -/
namespace Driver.Pth
open MythVerif MythVerif.PthProg

/-- parser of the s-expression syntax the generator uses for fragment terms -/
partial def parseProg : List String → Option (Prog × List String)
  | [] => none
  | "(" :: "s" :: rest => do
      let (a, r1) ← parseProg rest
      let (b, r2) ← parseProg r1
      match r2 with
      | ")" :: r3 => some (.seq a b, r3)
      | _ => none
  | "(" :: "f" :: rest => do
      let (a, r1) ← parseProg rest
      let (b, r2) ← parseProg r1
      match r2 with
      | ")" :: r3 => some (.fork a b, r3)
      | _ => none
  | tok :: rest =>
      if tok.startsWith "r" then (tok.drop 1).toString.toInt?.map (fun v => (.ret v, rest))
      else if tok.startsWith "a" then
        match (tok.drop 1).toString.splitOn ":" with
        | [c, k] => do some (.add (← c.toNat?) (← k.toInt?), rest)
        | _ => none
      else none

def runEval : IO UInt32 := do
  let stdin ← IO.getStdin
  let _ ← Driver.forLines stdin ([] : List String) fun acc line => do
    let l := line.trimAscii.toString
    if l == "end" then
      for r in Flat.eval acc.reverse do IO.println r
      IO.println "end"
      pure []
    else pure (l :: acc)
  return 0

def runTree : IO UInt32 := do
  let stdin ← IO.getStdin
  let _ ← Driver.forLines stdin () fun _ line => do
    match parseProg (Driver.words line) with
    | some (p, []) =>
      IO.println ("T " ++ evalLine p)
      for l in toFlat p do IO.println l
      IO.println "end"
    | _ => IO.println "E PARSE"; IO.println "end"
  return 0

/-! ### static-initialiser trace acceptor -/
open MythVerif.SInit

structure Obj where
  name : String
  st : St
  tids : List Nat := []
  entered : Nat := 0

structure Acc where
  objs : List Obj := []
  line : Nat := 0
  accepted : Nat := 0
  err : Option String := none
  verdict : Bool := false

def showPc : PC → String
  | .idle => "idle" | .rd v => s!"rd({v})" | .won a q s m => s!"won({a},{q},{s},{m})" | .fenced => "fenced"
  | .spin => "spin" | .chk => "chk" | .body => "body"

def applyLbls (st : St) : List Lbl → Option St
  | [] => some st
  | l :: ls => match step st l with
    | some st' => applyLbls st' ls
    | none => none

/-- labels of one SINIT event of thread `t` (kind = pt - 180, `v` = decoded value) -/
def toLbls (st : St) (kind : Nat) (t : Nat) (v : Int) : Option (List Lbl) :=
  let pre : List Lbl := if st.pc t = .body then [.leave t] else []
  match kind with
  | 0 => some (pre ++ [.read t v.toNat])
  | 1 => if v == -1 then some [.skipCas t] else some [.cas t (v == 1)]
  | 2 => some [.copyWord t .attr, .copyWord t .queue, .copyWord t .state, .copyWord t .magic, .fence t]
  | 3 => some [.publish t]
  | 4 => some [.spinRead t mIni]
  | 5 => some [.spinRead t v.toNat, .assertRead t v.toNat]
  | _ => none

def stepObj (acc : Acc) (line : String) (oname : String) (cur : Option Nat) (ls : St → Nat → Option (List Lbl))
    (extra : St → Bool) : Acc :=
  match acc.objs.find? (·.name == oname) with
  | none => acc
  | some o =>
    match cur with
    | none => { acc with err := some s!"MISMATCH line {acc.line}: cannot attribute `{line.trimAscii.toString}` to a thread" }
    | some t =>
      match ls o.st t with
      | none => acc
      | some lbls =>
        match applyLbls o.st lbls with
        | some st' =>
          if !extra st' then
            { acc with err := some s!"MISMATCH line {acc.line}: value observed in `{line.trimAscii.toString}` differs from the model (state word {st'.mstate})" }
          else
          let o' : Obj := { o with st := st', tids := if o.tids.contains t then o.tids else t :: o.tids,
                                   entered := o.entered + (lbls.filter entersBody).length }
          { acc with objs := acc.objs.map (fun p => if p.name == oname then o' else p),
                     accepted := acc.accepted + lbls.length }
        | none =>
          { acc with err := some s!"MISMATCH line {acc.line}: model cannot do `{line.trimAscii.toString}`: magic={o.st.magic} convs={o.st.convs} pc[{t}]={showPc (o.st.pc t)}" }

def big : Int := 10000000000

def feed (acc : Acc) (line : String) : Acc :=
  if acc.err.isSome then acc else
  let acc := { acc with line := acc.line + 1 }
  match Driver.words line with
  | ["obj", name, "sinit"] => { acc with objs := { name := name, st := SInit.init 0 0 true 0 } :: acc.objs }
  | ["verdict", _] => { acc with verdict := true }
  | _ =>
  match Driver.parseEv line with
  | none => acc
  | some e =>
    if e.pt == "PT?" || e.pt == "SPIN_PT?" then
      let k := (e.v / big).toNat
      let v := e.v % big - 1
      if k == 0 || k > 6 then acc else
      let kind := k - 1
      stepObj acc line e.a e.cur (fun st t => toLbls st kind t v)
        (fun st' => if kind == 2 then v == 0 && st'.fresh else true)
    else if e.pt.startsWith "MX_" then
      stepObj acc line e.a e.cur (fun st t => some [.bodyStep t st.mstate st.qEmpty]) (fun _ => true)
    else acc

def finalCheck (acc : Acc) : Option String :=
  if acc.verdict then none else
  acc.objs.findSome? fun o =>
    match o.tids.find? (fun t => o.st.pc t != .idle && o.st.pc t != .body) with
    | some t => some s!"MISMATCH at end of trace: thread {t} is still inside the handler on {o.name} (pc={showPc (o.st.pc t)})"
    | none =>
      if !o.tids.isEmpty && (o.st.convs != 1 || o.st.magic != mNo || !o.st.pubFresh) then
        some s!"MISMATCH at end of trace: object {o.name} was used but convs={o.st.convs} magic={o.st.magic}"
      else none

def runSinit : IO UInt32 := do
  let stdin ← IO.getStdin
  let acc ← Driver.forLines stdin ({} : Acc) fun a line => pure (feed a line)
  match acc.err with
  | some e => IO.println e; return 0
  | none =>
    match finalCheck acc with
    | some e => IO.println e; return 0
    | none => IO.println s!"accepted {acc.accepted}"; return 0

def run (args : List String) : IO UInt32 :=
  match args with
  | ["eval"] => runEval
  | ["tree"] => runTree
  | ["sinit"] => runSinit
  | _ => do IO.eprintln "usage: drv_pth eval|tree|sinit"; return 2

end Driver.Pth
