import Driver.Util
/-! `drv_pth`: stub, to be filled in -/
namespace Driver.Pth
def run (_args : List String) : IO UInt32 := do
  IO.eprintln "drv_pth: not implemented"
  return 2
end Driver.Pth
