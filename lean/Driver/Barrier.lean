import MythVerif.Model.Barrier
import Driver.Util
/-! `drv_barrier`: trace acceptor.  Replays a controller trace of a whole-library run on the barrier
model: every barrier event must be an enabled model step of that thread with the same observed
value (count read, CAS outcomes, the top the stack push/pop read, the thread popped / pushed to
the run queue, the return value).  Objects are declared by `obj <name> barrier <N>` lines; events
on other objects are skipped.

The sleep-stack points are named by a preceding `ptname <NAME>` line when the controller prints
them as `PT?`.  A trace from a library without the stack / return hooks is still accepted
("coarse" mode): BLOCK_CB_ENQ then stands for `pushRead; pushCas ok`, WAKE_DEQ for
`popRead; popCas ok`, SPIN_WAKE_DEQ for `popRead none`, and a BAR_READ of a thread that is about
to return stands for its return. -/
namespace Driver.Barrier
open MythVerif MythVerif.Barrier

structure Obj where
  name : String
  n : Nat
  st : St
  fine : Bool := false      -- STK_* events have been seen on this object

structure Acc where
  objs : List Obj := []
  line : Nat := 0
  accepted : Nat := 0
  pending : Option String := none   -- name announced by the last `ptname` line
  casFail : Nat := 0
  pushFail : Nat := 0
  popFail : Nat := 0
  spins : Nat := 0
  rets : Nat := 0
  err : Option String := none

def showL (l : List Nat) : String := toString l

def showPc : PC → String
  | .idle => "idle" | .retry => "retry" | .rd c => s!"rd{c}" | .exited => "exited" | .arr => "arr"
  | .sw => "sw" | .pushc none => "pushc-" | .pushc (some x) => s!"pushc{x}" | .asleep => "asleep"
  | .woken => "woken" | .lreset => "lreset" | .lpop acc => s!"lpop{showL acc}"
  | .lpopc x nx acc => s!"lpopc {x} {showL nx} {showL acc}" | .lpush rem => s!"lpush{showL rem}" | .lret => "lret"

def relevant (pt : String) : Bool :=
  pt.startsWith "BAR_" || pt.startsWith "STK_" || pt == "PT?" || pt == "BLOCK_BEGIN" || pt == "BLOCK_CB_BEGIN" ||
  pt == "BLOCK_CB_ENQ" || pt == "BLOCK_CB_END" || pt == "SPIN_WAKE_DEQ" || pt == "WAKE_DEQ" || pt == "WAKE_PUSH"

/-- apply a list of labels -/
def stepAll (n : Nat) (st : St) : List Lbl → Option St
  | [] => some st
  | l :: ls => match step n st l with
    | some st' => stepAll n st' ls
    | none => none

inductive Act where
  | steps (ls : List Lbl)          -- model steps to take
  | check (ok : Bool) (what : String)  -- no model step: an assertion on the model state
  | bad (why : String)

def optTag (s : String) : Option (Option Nat) :=
  if s == "-" then some none else (Driver.parseTag s).map some

/-- what an event means for the model, given the current model state of its object -/
def interp (o : Obj) (pt : String) (e : Driver.Ev) : Act :=
  let tb := Driver.parseTag e.b
  match pt, e.cur with
  | "BAR_READ", some t =>
      -- coarse mode: the previous wait of `t` returned without a BAR_RETURN event
      let pre : List Lbl := match o.st.pc t with
        | .woken => [.ret t 0]
        | .lret => [.ret t SERIAL]
        | _ => []
      .steps (pre ++ [.read t e.v.toNat])
  | "BAR_CAS", some t => .steps [.cas t (e.v == 1)]
  | "BAR_RESET", some t => .steps [.reset t]
  | "BAR_RETURN", some t => .steps [.ret t e.v.toNat]
  | "BLOCK_BEGIN", _ => match tb with
      | some t => .steps [.blockBegin t]
      | none => .bad "no thread"
  | "BLOCK_CB_BEGIN", _ => match tb with
      | some t => .check (o.st.pc t == .sw) s!"callback of t{t} starts with its context saved"
      | none => .bad "no thread"
  | "STK_PUSH_READ", some t => match optTag e.b with
      | some x => .steps [.pushRead t x]
      | none => .bad "top is not a thread"
  | "STK_PUSH_CAS", some t => .steps [.pushCas t (e.v == 1)]
  | "BLOCK_CB_ENQ", _ => match tb with
      | some t =>
          -- fine mode: the push happened at STK_PUSH_CAS; this event may come arbitrarily late (the
          -- thread may already have been popped, resumed elsewhere and be blocking again)
          if o.fine then .check true ""
          else .steps [.pushRead t o.st.stack.head?, .pushCas t true]
      | none => .bad "no thread"
  | "BLOCK_CB_END", _ => .check true ""
  | "STK_POP_READ", some t => match optTag e.b with
      | some x => .steps [.popRead t x]
      | none => .bad "top is not a thread"
  | "STK_POP_CAS", some t => .steps [.popCas t (e.v == 1)]
  | "SPIN_WAKE_DEQ", some t =>
      if o.fine then .check (match o.st.pc t with | .lpop _ => true | _ => false) s!"t{t} is popping"
      else .steps [.popRead t none]
  | "WAKE_DEQ", some t => match tb with
      | some x =>
          if o.fine then
            .check (match o.st.pc t with
                    | .lpop acc => acc.getLast? == some x
                    | .lpush rem => o.st.wk.getLast? == some x && rem == o.st.wk
                    | _ => false) s!"t{x} is the thread t{t} popped last"
          else .steps [.popRead t (some x), .popCas t true]
      | none => .bad "no thread"
  | "WAKE_PUSH", some t => match tb with
      | some x => .steps [.wakePush t x]
      | none => .bad "no thread"
  | _, _ => .bad "cannot attribute the event to a thread"

def feed (acc : Acc) (line : String) : Acc :=
  if acc.err.isSome then acc else
  let acc := { acc with line := acc.line + 1 }
  match Driver.words line with
  | ["obj", name, "barrier", n] => { acc with objs := { name := name, n := n.toNat?.getD 0, st := init } :: acc.objs }
  | ["ptname", nm] => { acc with pending := some nm }
  | _ =>
  match Driver.parseEv line with
  | none => acc
  | some e =>
    let pt := if e.pt == "PT?" then acc.pending.getD "PT?" else e.pt
    let acc := { acc with pending := none }
    if !relevant pt then acc else
    match acc.objs.find? (·.name == e.a) with
    | none => acc      -- an object this acceptor does not own
    | some o =>
      let o := if pt.startsWith "STK_" then { o with fine := true } else o
      let put (o' : Obj) (a : Acc) : Acc :=
        { a with objs := a.objs.map (fun p => if p.name == o'.name then o' else p), accepted := a.accepted + 1 }
      let diag := s!"count={o.st.count} stack={showL o.st.stack} N={o.n}"
      match interp o pt e with
      | .bad why => { acc with err := some s!"MISMATCH line {acc.line}: `{line.trimAscii.toString}`: {why}" }
      | .check ok what =>
          if ok then put o acc
          else { acc with err := some s!"MISMATCH line {acc.line}: `{line.trimAscii.toString}`: model does not have: {what}; {diag}" }
      | .steps ls =>
          match stepAll o.n o.st ls with
          | some st' =>
              let acc := put { o with st := st' } acc
              let acc := if pt == "BAR_CAS" && e.v != 1 then { acc with casFail := acc.casFail + 1 } else acc
              let acc := if pt == "STK_PUSH_CAS" && e.v != 1 then { acc with pushFail := acc.pushFail + 1 } else acc
              let acc := if pt == "STK_POP_CAS" && e.v != 1 then { acc with popFail := acc.popFail + 1 } else acc
              let acc := if pt == "SPIN_WAKE_DEQ" then { acc with spins := acc.spins + 1 } else acc
              let acc := if pt == "BAR_RETURN" then { acc with rets := acc.rets + 1 } else acc
              acc
          | none =>
              let who := match ls.getLast? with | some l => showPc (o.st.pc l.actor) | none => "?"
              { acc with err := some s!"MISMATCH line {acc.line}: model cannot do `{line.trimAscii.toString}` ({pt}): {diag} pc[actor]={who}" }

def run (_args : List String) : IO UInt32 := do
  let stdin ← IO.getStdin
  let acc ← Driver.forLines stdin ({} : Acc) fun a line => pure (feed a line)
  match acc.err with
  | some e => IO.println e; return 0
  | none =>
    IO.println s!"accepted {acc.accepted} cas_fail={acc.casFail} push_fail={acc.pushFail} pop_fail={acc.popFail} pop_spins={acc.spins} returns={acc.rets}"
    return 0

end Driver.Barrier
