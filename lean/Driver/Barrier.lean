import Driver.Util
/-! `drv_barrier`: stub, to be filled in -/
namespace Driver.Barrier
def run (_args : List String) : IO UInt32 := do
  IO.eprintln "drv_barrier: not implemented"
  return 2
end Driver.Barrier
