import Driver.Util
/-! `drv_x86`: stub, to be filled in -/
namespace Driver.X86
def run (_args : List String) : IO UInt32 := do
  IO.eprintln "drv_x86: not implemented"
  return 2
end Driver.X86
