import Driver.Util
import MythVerif.Model.X86
import MythVerif.Generated.CtxAsm
/-!
`drv_x86`: executes the REGENERATED context-switch instruction lists (`Generated/CtxAsm.lean`)
through the semantics of `Model/X86.lean`, on the machine states the hardware bench
(`harness/ctx_probe.c -DCTXP_BENCH`) ran them on.

  input  `<S> <K> <label> <ret0> <ret1> <16 regs before S> <16 regs before K> <n> (<addr> <val>)*n`
  output `<pc0> <16 regs after S.save ++ S.switch> <pc1> <16 regs after K.switch ++ S.restore> <val>*n`

`S ∈ {swap, swapWc}` is the template that suspends, `K ∈ {set, setWc, swap, swapWc}` the one that
resumes it.  The callee is the bench's `ctxp_bench_cb`.
-/
namespace Driver.X86
open MythVerif.X86 MythVerif.Gen.Ctx

def regIdx : List Reg := gprs

def idxOf (r : Reg) : Nat := (regIdx.findIdx? (· == r)).getD 99

/-- `ctxp_bench_cb`: two stores into its own frame, caller-saved registers destroyed, `ret` -/
def benchCallee (m : M) : M :=
  let sp := m.reg .rsp
  let m := setMem (setMem m (sp - 8) 0x777) (sp - 64) 0x888
  let m := [(Reg.rax, 0x1000), (.rcx, 0x1001), (.rdx, 0x1002), (.rsi, 0x1006), (.rdi, 0x1007),
            (.r8, 0x1008), (.r9, 0x1009), (.r10, 0x100a), (.r11, 0x100b)].foldl
            (fun (m : M) (p : Reg × Int) => setReg m p.1 p.2) m
  setReg m .rsp (sp + 8)

def suspendOf : String → Option (List Instr × List Instr × List Instr)
  | "swap" => some (swapSave, swapSwitch, swapRestore)
  | "swapWc" => some (swapWcSave, swapWcSwitch, swapWcRestore)
  | _ => none

def resumeOf : String → Option (List Instr)
  | "set" => some setSwitch
  | "setWc" => some setWcSwitch
  | "swap" => some swapSwitch
  | "swapWc" => some swapWcSwitch
  | _ => none

def regFile (vals : List Int) : Reg → Int := fun r => vals.getD (idxOf r) 0

def showRegs (m : M) : List String := regIdx.map (fun r => toString (m.reg r))

def step (line : String) : String :=
  match words line with
  | s :: k :: rest =>
    match suspendOf s, resumeOf k, rest.mapM (fun (w : String) => w.toInt?) with
    | some (sv, sw, rs), some ksw, some (label :: ret0 :: ret1 :: nums) =>
      let r0 := nums.take 16
      let r1 := (nums.drop 16).take 16
      let n := ((nums.drop 32).headD 0).toNat
      let pairs := nums.drop 33
      let addrs := (List.range n).map (fun i => pairs.getD (2 * i) 0)
      let init : Int → Int := fun a =>
        ((List.range n).find? (fun i => pairs.getD (2 * i) 0 == a)).elim 0 (fun i => pairs.getD (2 * i + 1) 0)
      let env0 : Env := { label := fun _ => label, retAddr := ret0, callee := benchCallee }
      let env1 : Env := { label := fun _ => label, retAddr := ret1, callee := benchCallee }
      let m0 : M := { reg := regFile r0, mem := init, pc := 0 }
      let mA := exec env0 m0 (sv ++ sw)
      let m1 : M := { reg := regFile r1, mem := mA.mem, pc := mA.pc }
      let mB := exec env1 m1 ksw
      let mC := exec env0 mB rs
      joinSp ([toString mA.pc] ++ showRegs mA ++ [toString mB.pc] ++ showRegs mC ++
              addrs.map (fun a => toString (mC.mem a)))
    | _, _, _ => "ERROR bad line"
  | _ => "ERROR bad line"

def run (_args : List String) : IO UInt32 := do
  let stdin ← IO.getStdin
  let stdout ← IO.getStdout
  let _ ← forLines stdin () (fun _ line => do
    if line.trimAscii.toString.isEmpty then return ()
    stdout.putStrLn (step line))
  return 0

end Driver.X86
