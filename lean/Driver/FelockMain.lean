import Driver.Felock
def main (args : List String) : IO UInt32 := Driver.Felock.run args
