import Driver.Env
def main (args : List String) : IO UInt32 := Driver.Env.run args
