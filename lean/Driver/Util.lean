/-! line-protocol helpers shared by all drivers -/
namespace Driver

def words (line : String) : List String :=
  (line.trimAscii.toString.splitOn " ").filter (· ≠ "")

partial def forLines {σ : Type} (h : IO.FS.Stream) (s : σ) (f : σ → String → IO σ) : IO σ := do
  let line ← h.getLine
  if line.isEmpty then return s
  let s' ← f s line
  forLines h s' f

def joinSp (l : List String) : String := " ".intercalate l

end Driver

namespace Driver
/-- one line of a controller trace: `ev <participant> <cur> <POINT> <a> <b> <v>` -/
structure Ev where
  part : Nat
  cur : Option Nat
  pt : String
  a : String
  b : String
  v : Int
  deriving Repr

def parseTag (s : String) : Option Nat :=
  if s.startsWith "t" then (s.drop 1).toString.toNat? else none

def parseEv (line : String) : Option Ev :=
  match words line with
  | "ev" :: p :: cur :: pt :: a :: b :: v :: _ =>       -- an optional 8th word carries a raw address
    match p.toNat?, v.toInt? with
    | some p, some v => some { part := p, cur := cur.toNat?, pt := pt, a := a, b := b, v := v }
    | _, _ => none
  | _ => none

/-- the raw address field `@hex` of a ledger event -/
def rawAddr (line : String) : Option String :=
  match words line with
  | "ev" :: _ :: _ :: _ :: _ :: _ :: _ :: r :: _ => if r.startsWith "@" then some r else none
  | _ => none
end Driver
