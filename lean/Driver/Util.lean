/-! line-protocol helpers shared by all drivers -/
namespace Driver

def words (line : String) : List String :=
  (line.trimAscii.toString.splitOn " ").filter (· ≠ "")

partial def forLines {σ : Type} (h : IO.FS.Stream) (s : σ) (f : σ → String → IO σ) : IO σ := do
  let line ← h.getLine
  if line.isEmpty then return s
  let s' ← f s line
  forLines h s' f

def joinSp (l : List String) : String := " ".intercalate l

end Driver
