import Driver.Uncond
def main (args : List String) : IO UInt32 := Driver.Uncond.run args
