import MythVerif.Model.JcArith
import MythVerif.Model.JoinCounter
import Driver.Util
/-! `drv_jc`: join-counter model behind the line protocol of the harnesses.

    `drv_jc trace`  : trace acceptor (see `Driver.Jc.Trace` below) for controller traces of
                      harness/progs/jc_prog.c
    `drv_jc`        : arithmetic lines (harness/jc_arith.c), one answer per line:

    jcbits N        -> "bits mask"                 (calc_bits / state_mask of init)
    jcdec N S       -> "excess" | "S' decs waiters wake"   (one dec on state word S)
    jcwait N S      -> "done" | "S' decs waiters"   (the announcement step of wait) -/
namespace Driver.Jc
open MythVerif.JcArith

def handle (line : String) : String :=
  match Driver.words line with
  | ["jcbits", n] =>
    match n.toNat? with
    | some n => s!"{calcBits n} {mask n}"
    | none => "bad-op"
  | ["jcdec", n, s] =>
    match n.toNat?, s.toNat? with
    | some n, some s =>
      match dec n s with
      | none => "excess"
      | some (s', wake) => s!"{s'} {decsOf n s'} {waitersOf n s'} {wake}"
    | _, _ => "bad-op"
  | ["jcwait", n, s] =>
    match n.toNat?, s.toNat? with
    | some n, some s =>
      match waitAnnounce n s with
      | none => "done"
      | some s' => s!"{s'} {decsOf n s'} {waitersOf n s'}"
    | _, _ => "bad-op"
  | _ => "bad-op"

/-! ### trace acceptor
Replays a controller trace of a whole-library run on the join-counter model: every event on a
join counter must be an enabled model step of that thread with the same observed value (word read,
CAS outcome, thread dequeued / pushed).  Objects are declared by `obj <name> jc <N>` lines;
events on other objects are skipped. -/
namespace Trace
open MythVerif MythVerif.JoinCounter

structure Obj where
  name : String
  n : Nat
  st : St

structure Acc where
  objs : List Obj := []
  line : Nat := 0
  accepted : Nat := 0
  waitCasFail : Nat := 0
  decCasFail : Nat := 0
  spins : Nat := 0
  immediate : Nat := 0      -- waits that returned without blocking
  blocked : Nat := 0        -- waits that announced themselves
  err : Option String := none

def showPc : PC → String
  | .idle => "idle" | .wretry => "wretry" | .wr v => s!"wr{v}" | .ann => "ann" | .annSw => "annSw"
  | .asleep => "asleep" | .woken => "woken" | .afail => "afail" | .dretry => "dretry" | .dr v => s!"dr{v}"
  | .dexit => "dexit" | .ddeq k acc => s!"ddeq {k} {acc}" | .dpush rem => s!"dpush {rem}"

def relevant (pt : String) : Bool :=
  pt.startsWith "JC_" || pt == "BLOCK_BEGIN" || pt == "BLOCK_CB_BEGIN" || pt == "SQ_ENQ" ||
  pt == "BLOCK_CB_END" || pt == "SQ_DEQ" || pt == "WAKE_PUSH"

inductive Act where
  | step (l : Lbl)
  | check (ok : Bool) (what : String)
  | bad (why : String)

def interp (o : Obj) (e : Driver.Ev) : Act :=
  let tb := Driver.parseTag e.b
  match e.pt, e.cur with
  | "JC_WAIT_READ", some t => .step (.waitRead t e.v.toNat)
  | "JC_WAIT_RETURN", some t => .check (o.st.pc t == .idle) s!"t{t} has just returned from wait"
  | "JC_WAIT_CAS", some t => .step (.waitCas t (e.v == 1))
  | "JC_DEC_READ", some t => .step (.decRead t e.v.toNat)
  | "JC_DEC_CAS", some t => .step (.decCas t (e.v == 1))
  | "BLOCK_BEGIN", _ => match tb with
      | some t => .step (.blockBegin t)
      | none => .bad "no thread"
  | "BLOCK_CB_BEGIN", _ => match tb with
      | some t => .check (o.st.pc t == .annSw) s!"callback of t{t} starts with its context saved"
      | none => .bad "no thread"
  | "SQ_ENQ", _ => match tb with          -- reported inside the queue's critical section
      | some t => .step (.cbEnq t)
      | none => .bad "no thread"
  | "BLOCK_CB_END", _ => .check true ""
  | "SQ_DEQ", some t => match tb with
      | some x => .step (.wakeDeq t x)
      | none => if e.b == "-" then .step (.wakeSpin t) else .bad "no thread"
  | "WAKE_PUSH", some t => match tb with
      | some x => .step (.wakePush t x)
      | none => .bad "no thread"
  | _, _ => .bad "cannot attribute the event to a thread"

def feed (acc : Acc) (line : String) : Acc :=
  if acc.err.isSome then acc else
  let acc := { acc with line := acc.line + 1 }
  match Driver.words line with
  | ["obj", name, "jc", n] => { acc with objs := { name := name, n := n.toNat?.getD 0, st := init } :: acc.objs }
  | _ =>
  match Driver.parseEv line with
  | none => acc
  | some e =>
    if !relevant e.pt then acc else
    match acc.objs.find? (·.name == e.a) with
    | none => acc      -- an object this acceptor does not own
    | some o =>
      let put (o' : Obj) (a : Acc) : Acc :=
        { a with objs := a.objs.map (fun p => if p.name == o'.name then o' else p), accepted := a.accepted + 1 }
      let diag := s!"state={o.st.state} decs={decsOf o.n o.st.state} waiters={waitersOf o.n o.st.state} q={o.st.q} N={o.n}"
      match interp o e with
      | .bad why => { acc with err := some s!"MISMATCH line {acc.line}: `{line.trimAscii.toString}`: {why}" }
      | .check ok what =>
          if ok then put o acc
          else { acc with err := some s!"MISMATCH line {acc.line}: `{line.trimAscii.toString}`: model does not have: {what}; {diag}" }
      | .step l =>
          match step o.n o.st l with
          | some st' =>
              let acc := put { o with st := st' } acc
              let acc := if e.pt == "JC_WAIT_CAS" && e.v != 1 then { acc with waitCasFail := acc.waitCasFail + 1 } else acc
              let acc := if e.pt == "JC_WAIT_CAS" && e.v == 1 then { acc with blocked := acc.blocked + 1 } else acc
              let acc := if e.pt == "JC_DEC_CAS" && e.v != 1 then { acc with decCasFail := acc.decCasFail + 1 } else acc
              let acc := if e.pt == "SQ_DEQ" && e.b == "-" then { acc with spins := acc.spins + 1 } else acc
              let acc := if e.pt == "JC_WAIT_READ" && st'.pc l.actor == .idle && o.st.pc l.actor != .woken then
                           { acc with immediate := acc.immediate + 1 } else acc
              acc
          | none =>
              { acc with err := some s!"MISMATCH line {acc.line}: model cannot do `{line.trimAscii.toString}`: {diag} pc[actor]={showPc (o.st.pc l.actor)}" }

def run : IO UInt32 := do
  let stdin ← IO.getStdin
  let acc ← Driver.forLines stdin ({} : Acc) fun a line => pure (feed a line)
  match acc.err with
  | some e => IO.println e; return 0
  | none =>
    IO.println s!"accepted {acc.accepted} wait_cas_fail={acc.waitCasFail} dec_cas_fail={acc.decCasFail} deq_spins={acc.spins} waits_immediate={acc.immediate} waits_blocked={acc.blocked}"
    return 0

end Trace

def run (args : List String) : IO UInt32 := do
  if args.contains "trace" then return (← Trace.run)
  let stdin ← IO.getStdin
  let _ ← Driver.forLines stdin () fun _ line => do
    IO.println (handle line)
    pure ()
  return 0

end Driver.Jc
