import MythVerif.Model.JcArith
import Driver.Util
/-! `drv_jc`: join-counter model behind the line protocol of the harnesses.  Arithmetic lines only
    for now (harness/jc_arith.c):

    jcbits N        -> "bits mask"                 (calc_bits / state_mask of init)
    jcdec N S       -> "excess" | "S' decs waiters wake"   (one dec on state word S)
    jcwait N S      -> "done" | "S' decs waiters"   (the announcement step of wait) -/
namespace Driver.Jc
open MythVerif.JcArith

def handle (line : String) : String :=
  match Driver.words line with
  | ["jcbits", n] =>
    match n.toNat? with
    | some n => s!"{calcBits n} {mask n}"
    | none => "bad-op"
  | ["jcdec", n, s] =>
    match n.toNat?, s.toNat? with
    | some n, some s =>
      match dec n s with
      | none => "excess"
      | some (s', wake) => s!"{s'} {decsOf n s'} {waitersOf n s'} {wake}"
    | _, _ => "bad-op"
  | ["jcwait", n, s] =>
    match n.toNat?, s.toNat? with
    | some n, some s =>
      match waitAnnounce n s with
      | none => "done"
      | some s' => s!"{s'} {decsOf n s'} {waitersOf n s'}"
    | _, _ => "bad-op"
  | _ => "bad-op"

def run (_args : List String) : IO UInt32 := do
  let stdin ← IO.getStdin
  let _ ← Driver.forLines stdin () fun _ line => do
    IO.println (handle line)
    pure ()
  return 0

end Driver.Jc
