import Driver.Util
/-! `drv_jc`: stub, to be filled in -/
namespace Driver.Jc
def run (_args : List String) : IO UInt32 := do
  IO.eprintln "drv_jc: not implemented"
  return 2
end Driver.Jc
