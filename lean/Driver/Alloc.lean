import MythVerif.Model.Ledger
import MythVerif.Model.SizeClass
import Driver.Util
/-! `drv_alloc`: (1) trace acceptor for the allocation ledger (DESC_GET/FREE, STACK_GET/FREE with
raw block addresses): one `Ledger` per block class; every `get` must hand out exactly the block
the model predicts (the head of that worker's free list, else a fresh one) and every release must
be of a block in use.  (2) with argument `sizeclass`: `idx <n>` → the model's size class. -/
namespace Driver.Alloc
open MythVerif MythVerif.Ledger

structure Cls where
  name : String
  st : St
  real : List (Nat × String)      -- model address ↦ real address

structure Acc where
  cls : List Cls := []
  line : Nat := 0
  accepted : Nat := 0
  err : Option String := none

def className (pt : String) (v : Int) : String :=
  if pt.startsWith "DESC" then "desc"
  else if v == 0 then "stack-default"
  else s!"stack-class{SizeClass.sizeToIndex (SizeClass.roundPage v.toNat)}"

def hexDigit (c : Char) : Nat :=
  if '0' ≤ c ∧ c ≤ '9' then c.toNat - '0'.toNat
  else if 'a' ≤ c ∧ c ≤ 'f' then c.toNat - 'a'.toNat + 10
  else if 'A' ≤ c ∧ c ≤ 'F' then c.toNat - 'A'.toNat + 10 else 0

/-- identity of a block: the hook reports the stack TOP (`base + rounded size - 16`), which moves when the same
    block of a size class is handed out again for another custom size of that class; the block start does not -/
def blockKey (pt : String) (v : Int) (raw : String) : String :=
  if pt.startsWith "STACK" && v != 0 then
    let top := (raw.drop 1).toString.toList.foldl (fun n c => 16 * n + hexDigit c) 0
    s!"#{top + 16 - SizeClass.roundPage v.toNat}"
  else raw

def feed (acc : Acc) (line : String) : Acc :=
  if acc.err.isSome then acc else
  let acc := { acc with line := acc.line + 1 }
  match Driver.parseEv line, Driver.rawAddr line with
  | some e, some raw0 =>
    let raw := blockKey e.pt e.v raw0
    if !(e.pt == "DESC_GET" || e.pt == "DESC_FREE" || e.pt == "STACK_GET" || e.pt == "STACK_FREE") then acc else
    let cn := className e.pt e.v
    let c := (acc.cls.find? (·.name == cn)).getD { name := cn, st := init, real := [] }
    let put (c' : Cls) := { acc with cls := c' :: acc.cls.filter (·.name != cn), accepted := acc.accepted + 1 }
    if e.pt.endsWith "GET" then
      match step c.st (.get e.part) with
      | some (st', some a) =>
        match c.real.find? (·.1 == a) with
        | some (_, r) =>
          if r == raw then put { c with st := st' }
          else
            -- not the head of the model's list: acceptable iff it is another block of THIS worker's free list of this
            -- class (the order inside one free list is not part of the property; the class lists of the general
            -- allocator are shared with other users); a block in use or on another worker's list is a mismatch
            match c.real.find? (·.2 == raw) with
            | some (a', _) =>
              if (c.st.fl e.part).contains a' then
                let owned := a' :: c.st.owned
                put { c with st := { c.st with owned := owned, fl := upd c.st.fl e.part ((c.st.fl e.part).erase a'),
                                                peak := max c.st.peak owned.length } }
              else { acc with err := some s!"MISMATCH line {acc.line}: {cn}: worker {e.part} was handed block {raw}, which is {if c.st.owned.contains a' then "IN USE" else "on another worker's free list"} (the model's free list head is {r})" }
            | none => { acc with err := some s!"MISMATCH line {acc.line}: {cn}: worker {e.part} was handed the unknown block {raw} although its free list is not empty (head {r})" }
        | none =>
          if c.real.any (·.2 == raw) then
            { acc with err := some s!"MISMATCH line {acc.line}: {cn}: block {raw} handed out as fresh but it is already known (in use or on a free list)" }
          else put { c with st := st', real := (a, raw) :: c.real }
      | _ => { acc with err := some s!"MISMATCH line {acc.line}: ledger get impossible" }
    else
      match c.real.find? (·.2 == raw) with
      | none => { acc with err := some s!"MISMATCH line {acc.line}: {cn}: release of block {raw} that was never handed out" }
      | some (a, _) =>
        match step c.st (.free e.part a) with
        | some (st', _) => put { c with st := st' }
        | none => { acc with err := some s!"MISMATCH line {acc.line}: {cn}: block {raw} released while not in use (double release)" }
  | _, _ => acc

def runSizeClass : IO UInt32 := do
  let stdin ← IO.getStdin
  let _ ← Driver.forLines stdin () fun _ line => do
    match Driver.words line with
    | ["idx", n] =>
      match n.toNat? with
      | some n => IO.println s!"{SizeClass.sizeToIndex n} {SizeClass.rsize (SizeClass.sizeToIndex n)}"
      | none => IO.println "bad-op"
    | ["stack", b, n] =>
      match b.toNat?, n.toNat? with
      | some b, some n => IO.println s!"{SizeClass.roundPage n} {SizeClass.stackTop b n - b}"
      | _, _ => IO.println "bad-op"
    | _ => IO.println "bad-op"
  return 0

def run (args : List String) : IO UInt32 := do
  if args.contains "sizeclass" then return (← runSizeClass)
  let stdin ← IO.getStdin
  let acc ← Driver.forLines stdin ({} : Acc) fun a line => pure (feed a line)
  match acc.err with
  | some e => IO.println e; return 0
  | none =>
    let inuse := acc.cls.map (fun c => s!"{c.name}:{c.st.owned.length}/{c.st.fresh}/{c.st.peak}")
    IO.println s!"accepted {acc.accepted} inuse/fresh/peak {Driver.joinSp inuse}"
    return 0

end Driver.Alloc
