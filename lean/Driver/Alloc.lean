import Driver.Util
/-! `drv_alloc`: stub, to be filled in -/
namespace Driver.Alloc
def run (_args : List String) : IO UInt32 := do
  IO.eprintln "drv_alloc: not implemented"
  return 2
end Driver.Alloc
