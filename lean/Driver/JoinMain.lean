import Driver.Join
def main (args : List String) : IO UInt32 := Driver.Join.run args
