import MythVerif.Model.Tls
import Driver.Util
/-! `mythdrv tls`: the TLS tree / key allocator model behind the line protocol of harness/tls_unit.c -/
namespace Driver.Tls
open MythVerif MythVerif.Tls

structure St where
  world : Nat → Tree := fun _ => none
  keys : Keys := Keys.init geo.nKeys

def showEv (dt : Dtors) : MythVerif.Tls.Ev → Option String
  | .call k v => some s!"c{(dt k).getD 999}:{v}"
  | .oob k => some s!"oob{k}"
  | .free => none

def step (s : St) (line : String) : St × String :=
  match Driver.words line with
  | ["set", t, k, v] =>
    match t.toNat?, k.toInt?, v.toNat? with
    | some t, some k, some v =>
      let (tr, rc) := set geo (s.world t) k v
      ({ s with world := upd s.world t tr }, s!"{rc}")
    | _, _, _ => (s, "bad-op")
  | ["get", t, k] =>
    match t.toNat?, k.toInt? with
    | some t, some k => (s, s!"{get geo (s.world t) k}")
    | _, _ => (s, "bad-op")
  | ["create", d] =>
    match d.toInt? with
    | some d =>
      let (ks, k) := s.keys.alloc (if d < 0 then none else some d.toNat)
      ({ s with keys := ks }, s!"{k}")
    | none => (s, "bad-op")
  | ["delete", k] =>
    match k.toInt? with
    | some k =>
      let (ks, rc) := s.keys.dealloc geo k
      ({ s with keys := ks }, s!"{rc}")
    | none => (s, "bad-op")
  | ["reinit"] => ({ s with keys := Keys.init geo.nKeys }, "0")
  | ["exit", t] =>
    match t.toNat? with
    | some t =>
      let evs := fini geo fixedWalk s.keys.dtor (s.world t)
      let calls := evs.filterMap (showEv s.keys.dtor)
      let frees := evs.countP (· == MythVerif.Tls.Ev.free)
      ({ s with world := upd s.world t none }, "calls" ++ String.join (calls.map (" " ++ ·)) ++ s!" frees {frees}")
    | none => (s, "bad-op")
  | _ => (s, "bad-op")

def run (_args : List String) : IO UInt32 := do
  let stdin ← IO.getStdin
  let _ ← Driver.forLines stdin ({} : St) fun s line => do
    let (s', out) := step s line
    IO.println out
    pure s'
  return 0

end Driver.Tls
