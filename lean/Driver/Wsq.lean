import MythVerif.Model.WsQueue
import MythVerif.Model.WsQueueTso
import Driver.Util
import Std.Data.HashSet
/-! `drv_wsq`: the work-stealing queue models behind three line protocols.

* `drv_wsq seq <size>` – sequential model; one op per line (`push T | pop | take | wtake A | peek |
  wpeek | trypass T | pass T | put T | clear | dump | reset`), one canonical output line each;
  diffed against `harness/wsq_seq.c`.
* `drv_wsq accept <size>` – trace acceptor for the SC machine.  Input = event traces of the real
  code under the schedule controller of `harness/wsq_conc.c`:
  `RUN id` / `C part op arg` / `E part point value tag` / `F part strength` / `R part value` / `END id`.
  Every `E` must be the enabled model step of that participant with the same point name and the
  same observed value; `F` events must be exactly the fences the model expects after the last step
  (`fencesAfter`); `R` must be the model's return value.  Answers `ok <steps>` or `MISMATCH …` per run.
* `drv_wsq tso …` – executable x86-TSO model with the fence positions as a parameter (violation
  search for missing-fence changes), see `Model/WsQueueTso.lean`. -/
namespace Driver.Wsq
open MythVerif MythVerif.Wsq

/-! ## sequential protocol -/

def showRes : Res → String
  | .unit => "-"
  | .val none => "0"
  | .val (some x) => s!"{x}"
  | .ok true => "ok1"
  | .ok false => "ok0"
  | .abort => "abort"
  | .diverge => "diverge"
  | .assertFail => "assert"

def showQ (q : Q) : String :=
  s!"top={q.top} base={q.base} wc={q.cache.getD 0}"

def parseOp : List String → Option Op
  | ["push", t] => t.toNat?.map .push
  | ["pop"] => some .pop
  | ["take"] => some .take
  | ["wtake", a] => a.toNat?.map (fun a => .wtake (a != 0))
  | ["peek"] => some .peek
  | ["wpeek"] => some .wpeek
  | ["trypass", t] => t.toNat?.map .trypass
  | ["pass", t] => t.toNat?.map .pass
  | ["put", t] => t.toNat?.map .put
  | ["clear"] => some .clear
  | _ => none

def dumpQ (q : Q) : String :=
  let n := (q.top - q.base).toNat
  "slots" ++ String.join ((List.range n).map (fun (k : Nat) => s!" {(q.ptr (q.base + (k : Int))).getD 0}"))

def seqStepLine (size : Int) (q : Q) (line : String) : Q × String :=
  match Driver.words line with
  | ["dump"] => (q, dumpQ q)
  | ["reset"] => (Q.init size, "reset " ++ showQ (Q.init size))
  | ws =>
    match parseOp ws with
    | some op =>
      let (q', r) := exec q op
      (q', showRes r ++ " " ++ showQ q')
    | none => (q, "bad-op")

def runSeq (size : Int) : IO UInt32 := do
  let stdin ← IO.getStdin
  let _ ← Driver.forLines stdin (Q.init size) fun q line => do
    let (q', out) := seqStepLine size q line
    IO.println out
    pure q'
  return 0

/-! ## SC trace acceptor -/

def tagOf (r : Option Elem) : Int := (r.getD 0 : Nat)

def casObs (s : St) : String × Int × Int :=
  ("cas", (match s.lock with | .free => 1 | _ => 0), 0)

/-- point name, observed value and element tag the owner's next step must show -/
def obsO (s : St) : Option (String × Int × Int) :=
  match s.opc with
  | .idle | .aborted | .assertFail => none
  | .pu0 e => some ("pu0", s.top, e)
  | .pul _ | .pol _ | .ptl _ | .cll => some (casObs s)
  | .pub e => some ("pub", s.base, e)
  | .pum e off => some ("pum", off, e)
  | .pus e off => some ("pus", s.top + off, e)
  | .puv e off => some ("puv", s.base + off, e)
  | .pux _ _ | .po6 _ | .po9 | .pt9 | .cl3 => some ("unl", 0, 0)
  | .pu1 e t => some ("pu1", t, e)
  | .pu2 e t => some ("pu2", t + 1, e)
  | .pq => some ("pq", if s.top ≤ s.base then 0 else 1, 0)
  | .po1 => some ("po1", s.top - 1, 0)
  | .po2 _ => some ("po2", s.base, 0)
  | .po3 t _ => some ("po3", t, tagOf (s.ptr t))
  | .po4 _ => some ("po4", s.base, 0)
  | .po5 t _ => some ("po5", t, tagOf (s.ptr t))
  | .po5b t _ => some ("po5b", t, 0)
  | .po5c t _ => some ("po5c", if t ≤ s.base then 1 else 0, 0)
  | .po5d _ => some ("po5d", 0, 0)
  | .po7 => some ("po7", s.size / 2, 0)
  | .po8 => some ("po8", s.size / 2, 0)
  | .pt1 e => some ("pt1", s.base, e)
  | .pt2 e => some ("pt2", if s.top = s.size then -1 else (s.size - s.top + 1) / 2, e)
  | .pt3 e off => some ("pt3", off, e)
  | .pt4 e off => some ("pt4", s.top + off, e)
  | .pt5 e off => some ("pt5", s.base + off, e)
  | .pt7 e b => some ("pt7", b - 1, e)
  | .pt8 e b => some ("pt8", b - 1, e)
  | .cl1 => some ("cl1", s.size / 2, 0)
  | .cl2 => some ("cl2", s.base, 0)

def qcObs (name : String) (s : St) (t : Int) : String × Int × Int :=
  (name, if t - s.base ≤ 0 then 0 else 1, 0)

def obsT (s : St) (p : Pid) : Option (String × Int × Int) :=
  match s.tpc p with
  | .idle => none
  | .tq0 => some ("tq0", s.top, 0)
  | .tq1 t => some (qcObs "tq1" s t)
  | .tkl | .wtl | .tpl _ | .vl => some (casObs s)
  | .tk1 => some ("tk1", s.base, 0)
  | .tk2 _ => some ("tk2", s.top, 0)
  | .tk3 b _ => some ("tk3", b, tagOf (s.ptr b))
  | .tk4 _ | .tk6 | .wk4u _ | .wk6 | .tp4 _ | .vu => some ("unl", 0, 0)
  | .tk5 b => some ("tk5", b, 0)
  | .wq0 => some ("wq0", s.top, 0)
  | .wq1 t => some (qcObs "wq1" s t)
  | .wk1 => some ("wk1", s.base, 0)
  | .wk2 _ => some ("wk2", s.top, 0)
  | .wk3 b => some ("wk3", b, tagOf (s.ptr b))
  | .wkd _ r => some ("wkd", -1, tagOf r)          -- the verdict is an input, taken from the event
  | .wk4 _ => some ("wk4", 0, 0)
  | .wk5 b => some ("wk5", b, 0)
  | .tp1 e => some ("tp1", s.base, e)
  | .tp2 e b => some ("tp2", b - 1, e)
  | .tp3 e _ => some ("tp3", s.base - 1, e)
  | .kq0 => some ("kq0", s.top, 0)
  | .kq1 t => some (qcObs "kq1" s t)
  | .pk1 => some ("pk1", s.base, 0)
  | .pk2 _ => some ("pk2", s.top, 0)
  | .pk3 b => some ("pk3", b, tagOf (s.ptr b))
  | .vq0 => some ("vq0", s.top, 0)
  | .vq1 t => some (qcObs "vq1" s t)
  | .vc0 => some ("vc0", if s.cache.isSome then 1 else 0, 0)
  | .vc1 => some ("vc1", if s.cache.isSome then 1 else 0, 0)
  | .vk1 => some ("vk1", s.base, 0)
  | .vk2 _ => some ("vk2", s.top, 0)
  | .vk3 b => some ("vk3", b, tagOf (s.ptr b))
  | .vk4 _ r => some ("vk4", 0, tagOf r)
  | .vk5 b => some ("vk5", b, 0)
  | .vr => some ("vr", 0, tagOf s.cache)

/-- fences the code executes between the point of the step `pc → pc'` and the participant's next
    point: `F` = hardware fence / locked instruction (`xchg`), `c` = compiler barrier only
    (`myth_wbarrier` under `MYTH_BARRIER_CILK`).  These are the model's fence positions. -/
def fencesAfterO : OPc → OPc → String
  | .pu0 _, _ => "F"                      -- myth_wsqueue_rbarrier after `t = q->top`
  | .pul _, .pub _ => "F"                 -- rwbarrier of a successful trylock
  | .puv _ _, _ => "F"                    -- rwbarrier of unlock
  | .pu1 _ _, _ => "c"                    -- wbarrier between slot store and top store
  | .po1, _ => "F"                        -- rwbarrier after the store of top
  | .pol _, .po4 _ => "F"
  | .po5c _ _, .po5d _ => "cc"            -- two wbarriers of the cache invalidation
  | .po5c _ _, .po6 _ => "F"
  | .po5d _, _ => "F"
  | .po8, _ => "F"
  | .ptl _, .pt1 _ => "F"
  | .pt8 _ _, _ => "F"
  | .cll, .cl1 => "F"
  | .cl2, _ => "F"
  | _, _ => ""

def fencesAfterT : TPc → TPc → String
  | .tkl, .tk1 => "F"
  | .tk1, _ => "F"
  | .tk2 _, .tk3 _ _ => "F"               -- rbarrier before the slot read
  | .tk3 _ _, _ => "F"
  | .tk5 _, _ => "F"
  | .wtl, .wk1 => "F"
  | .wk1, _ => "F"
  | .wkd _ _, .wk4 _ => "cc"
  | .wkd _ _, .wk5 _ => "c"
  | .wk4 _, _ => "F"
  | .wk5 _, _ => "F"
  | .tpl _, .tp1 _ => "F"
  | .tp1 _, .tp4 _ => "F"
  | .tp2 _ _, _ => "c"
  | .tp3 _ _, _ => "F"
  | .pk2 _, .pk3 _ => "F"
  | .vc0, .vr => "FF"                     -- the two rbarriers of the seqlock read
  | .vl, .vc1 => "F"
  | .vc1, .vu => "F"
  | .vk1, _ => "F"
  | .vk3 _, _ => "cc"
  | .vk4 _ _, _ => "c"
  | .vk5 _, _ => "F"
  | .vu, _ => "FF"
  | _, _ => ""

/-- value returned to the caller when the step from `pc` ends the operation -/
def retO (s : St) : Int :=
  match s.opc with
  | .po3 t _ => tagOf (s.ptr t)
  | .po6 r => tagOf r
  | _ => 0

def retT (s : St) (p : Pid) : Int :=
  match s.tpc p with
  | .tk4 r | .wk4u r => tagOf r
  | .tp4 ok => if ok then 1 else 0
  | .pk3 b => tagOf (s.ptr b)
  | .vr => tagOf s.cache
  | _ => 0

structure Acc where
  s : St
  pendO : String := ""
  pendT : Pid → String := fun _ => ""
  retO : Int := 0
  retT : Pid → Int := fun _ => 0
  steps : Nat := 0
  err : Option String := none
  line : Nat := 0

def Acc.fail (a : Acc) (msg : String) : Acc :=
  if a.err.isSome then a else { a with err := some s!"line {a.line}: {msg}" }

def isIdleO : OPc → Bool
  | .idle => true
  | _ => false
def isIdleT : TPc → Bool
  | .idle => true
  | _ => false

def accCall (a : Acc) (part : Nat) (op : String) (arg : Nat) : Acc :=
  let lbl : Option Lbl :=
    if part = 0 then
      match op with
      | "push" => some (.oPush arg) | "pop" => some .oPop | "put" => some (.oPut arg) | "clear" => some .oClear
      | _ => none
    else
      let p := part - 1
      match op with
      | "take" => some (.tTake p) | "wtake" => some (.tWTake p) | "trypass" => some (.tPass p arg)
      | "peek" => some (.tPeek p) | "wpeek" => some (.tWPeek p)
      | _ => none
  match lbl with
  | none => a.fail s!"unknown call {op} by participant {part}"
  | some l =>
    let pend := if part = 0 then a.pendO else a.pendT (part - 1)
    if pend ≠ "" then a.fail s!"participant {part}: model expects fences '{pend}' before the next call, impl executed none"
    else match step a.s l with
      | some s' => { a with s := s' }
      | none => a.fail s!"call {op} not enabled for participant {part} (an operation is still in progress in the model)"

def accEvent (a : Acc) (part : Nat) (name : String) (v tag : Int) : Acc :=
  if part = 0 then
    if a.pendO ≠ "" then a.fail s!"owner: model expects fences '{a.pendO}' before point {name}, impl executed none" else
    match obsO a.s with
    | none => a.fail s!"owner event {name} but the model's owner is idle or dead"
    | some (n, ev, et) =>
      if n ≠ name then a.fail s!"owner: model is at point {n}, impl reports {name}"
      else if ev ≠ v ∨ et ≠ tag then a.fail s!"owner at {n}: model expected value {ev} tag {et}, impl observed {v} tag {tag}"
      else match step a.s .o with
        | none => a.fail s!"owner at {n}: model step disabled"
        | some s' =>
          { a with s := s', steps := a.steps + 1, pendO := fencesAfterO a.s.opc s'.opc,
                   retO := if isIdleO s'.opc then retO a.s else a.retO }
  else
    let p := part - 1
    if a.pendT p ≠ "" then a.fail s!"participant {part}: model expects fences '{a.pendT p}' before point {name}, impl executed none" else
    match obsT a.s p with
    | none => a.fail s!"participant {part} event {name} but the model's participant is idle"
    | some (n, ev, et) =>
      if n ≠ name then a.fail s!"participant {part}: model is at point {n}, impl reports {name}"
      else
        let isD := n == "wkd"
        if (¬ isD ∧ ev ≠ v) ∨ et ≠ tag then
          a.fail s!"participant {part} at {n}: model expected value {ev} tag {et}, impl observed {v} tag {tag}"
        else
          let l : Lbl := if isD then .tDecide p (v != 0) else .t p
          match step a.s l with
          | none => a.fail s!"participant {part} at {n}: model step disabled"
          | some s' =>
            { a with s := s', steps := a.steps + 1,
                     pendT := upd a.pendT p (fencesAfterT (a.s.tpc p) (s'.tpc p)),
                     retT := if isIdleT (s'.tpc p) then upd a.retT p (retT a.s p) else a.retT }

def accFence (a : Acc) (part : Nat) (strength : Int) : Acc :=
  let pend := if part = 0 then a.pendO else a.pendT (part - 1)
  let c : Char := if strength = 1 then 'F' else 'c'
  match pend.toList with
  | [] => a.fail s!"participant {part}: impl executed a fence ({c}) where the model has none"
  | x :: rest =>
    if x ≠ c then a.fail s!"participant {part}: impl fence kind {c}, model expects {x}"
    else if part = 0 then { a with pendO := String.ofList rest }
    else { a with pendT := upd a.pendT (part - 1) (String.ofList rest) }

def accRet (a : Acc) (part : Nat) (v : Int) : Acc :=
  let pend := if part = 0 then a.pendO else a.pendT (part - 1)
  if pend ≠ "" then a.fail s!"participant {part}: model expects fences '{pend}' before the return, impl executed none"
  else if part = 0 then
    if ¬ isIdleO a.s.opc then a.fail "owner returned but the model's operation is not finished"
    else if a.retO ≠ v then a.fail s!"owner: model returns {a.retO}, impl returned {v}"
    else { a with retO := 0 }
  else
    let p := part - 1
    if ¬ isIdleT (a.s.tpc p) then a.fail s!"participant {part} returned but the model's operation is not finished"
    else if a.retT p ≠ v then a.fail s!"participant {part}: model returns {a.retT p}, impl returned {v}"
    else { a with retT := upd a.retT p 0 }

def accLine (size : Int) (a : Acc) (line : String) : Acc × Option String :=
  let a := { a with line := a.line + 1 }
  match Driver.words line with
  | ["RUN", _] => ({ s := init size, line := a.line }, none)
  | ["END", id] =>
    let msg := match a.err with
      | some e => s!"MISMATCH run {id} {e}"
      | none => s!"ok {id} steps={a.steps} A={a.s.A.length} retd={a.s.retd.length} ins={a.s.ins.length}"
    (a, some msg)
  | ["C", p, op, arg] =>
    match p.toNat?, arg.toNat? with
    | some p, some arg => (if a.err.isSome then a else accCall a p op arg, none)
    | _, _ => (a.fail "bad C line", none)
  | ["E", p, name, v, tag] =>
    match p.toNat?, v.toInt?, tag.toInt? with
    | some p, some v, some tag => (if a.err.isSome then a else accEvent a p name v tag, none)
    | _, _, _ => (a.fail "bad E line", none)
  | ["F", p, k] =>
    match p.toNat?, k.toInt? with
    | some p, some k => (if a.err.isSome then a else accFence a p k, none)
    | _, _ => (a.fail "bad F line", none)
  | ["R", p, v] =>
    match p.toNat?, v.toInt? with
    | some p, some v => (if a.err.isSome then a else accRet a p v, none)
    | _, _ => (a.fail "bad R line", none)
  | [] => (a, none)
  | _ => (a, none)          -- other harness lines (oracle data) are not for the acceptor

def runAccept (size : Int) : IO UInt32 := do
  let stdin ← IO.getStdin
  let _ ← Driver.forLines stdin ({ s := init size } : Acc) fun a line => do
    let (a', out) := accLine size a line
    match out with
    | some o => IO.println o
    | none => pure ()
    pure a'
  return 0

end Driver.Wsq

namespace Driver.WsqTso
open MythVerif MythVerif.WsqTso
open MythVerif.Wsq (Elem Pid Holder retOpt)

/-! ## x86-TSO machine: bounded exhaustive search with the fence positions as a parameter -/

inductive Cmd where
  | push (e : Elem) | pop | take | put (e : Elem) | pass (e : Elem) | peek | wtake | wpeek | clear
  deriving Repr

structure Cfg where
  s : St
  oscr : List Cmd            -- owner's remaining script
  tscr : List (List Cmd)     -- remaining scripts of participants 0..k-1

def optKey (x : Option Elem) : List Int := [(x.getD 0 : Nat), if x.isSome then 1 else 0]

def stoKey : Sto → List Int
  | .top v => [1, v]
  | .base v => [2, v]
  | .ptr i x => [3, i, (x.getD 0 : Nat), if x.isSome then 1 else 0]
  | .unlock => [4]
  | .baseI v e => [5, v, e]
  | .shift lo hi off => [6, lo, hi, off]
  | .cache x => 7 :: optKey x

def opcKey : OPc → List Int
  | .idle => [0] | .stuck => [1] | .pu0 e => [2, e] | .pu0f e t => [3, e, t] | .pu1 e t => [4, e, t]
  | .pu2 e t => [5, e, t] | .pq => [6] | .po1 => [7] | .pof t => [8, t] | .po2 t => [9, t]
  | .po3 t x => [10, t, x] | .pol t => [11, t] | .po4 t => [12, t] | .po5 t x => [13, t, x]
  | .po5b t r => [14, t] ++ optKey r | .po6 r => 15 :: optKey r | .po7 => [16] | .po8 => [17] | .po9 => [18]
  | .stuckL => [19] | .ptl e => [20, e] | .pt1 e => [21, e] | .pt6 e => [22, e] | .pt7 e b => [23, e, b]
  | .pt8 e b => [24, e, b] | .pt9 => [25]
  | .pul e => [26, e] | .pub e => [27, e] | .pum e off => [28, e, off] | .pus e off => [29, e, off]
  | .puv e off => [30, e, off] | .pux e t => [31, e, t] | .pt2 e => [32, e] | .pt3 e off => [33, e, off]
  | .pt4 e off => [34, e, off] | .pt5 e off => [35, e, off]
  | .po5c t r => [36, t] ++ optKey r | .po5d r => 37 :: optKey r
  | .assertFail => [38] | .cll => [39] | .cl1 => [40] | .cl2 => [41] | .cl3 => [42]

def tpcKey : TPc → List Int
  | .idle => [0] | .tq0 => [1] | .tq1 t => [2, t] | .tkl => [3] | .tk1 => [4] | .tkf b => [5, b]
  | .tk2 b => [6, b] | .tk3 b x => [7, b, x] | .tk4 r => 8 :: optKey r | .tk5 b => [9, b] | .tk6 => [10]
  | .tpl e => [11, e] | .tp1 e => [12, e] | .tp1b e => [13, e] | .tp2 e b => [14, e, b] | .tp3 e => [15, e]
  | .tp4 ok => [16, if ok then 1 else 0]
  | .kq0 => [17] | .kq1 t => [18, t] | .pk1 => [19] | .pk2 b => [20, b] | .pk3 b => [21, b]
  | .wq0 => [22] | .wq1 t => [23, t] | .wtl => [24] | .wk1 => [25] | .wkf b => [26, b] | .wk2 b => [27, b]
  | .wk3 b => [28, b] | .wkd b r => [29, b] ++ optKey r | .wk4 r => 30 :: optKey r | .wk4u r => 31 :: optKey r
  | .wk5 b => [32, b] | .wk6 => [33]
  | .vq0 => [34] | .vq1 t => [35, t] | .vc0 => [36] | .vl => [37] | .vc1 => [38] | .vk1 => [39] | .vkf b => [40, b]
  | .vk2 b => [41, b] | .vk3 b => [42, b] | .vk4 b r => [43, b] ++ optKey r | .vk5 b => [44, b] | .vu => [45] | .vr => [46]

def lockKey : Holder → Int
  | .free => 0 | .owner => 1 | .thief p => 2 + p

def cmdKey : Cmd → Int
  | .push e => 100 + 3 * e | .pop => 1 | .take => 2 | .put e => 101 + 3 * e | .pass e => 102 + 3 * e | .peek => 3 | .wtake => 4 | .wpeek => 5 | .clear => 6

/-- canonical key of the concrete part of a configuration (slots `0..size-1`, `k` participants) -/
def Cfg.key (c : Cfg) : List Int :=
  let s := c.s
  let n := s.size.toNat
  let k := c.tscr.length
  [s.top, s.base, lockKey s.lock] ++ optKey s.cache ++
  ((List.range n).map (fun (i : Nat) => optKey (s.ptr (i : Int)))).flatten ++ [-1] ++
  (s.bufO.map stoKey).flatten ++ [-2] ++ opcKey s.opc ++ [-3] ++
  ((List.range k).map (fun p => (s.bufT p).map stoKey |>.flatten |>.append (-4 :: tpcKey (s.tpc p)))).flatten ++ [-5] ++
  s.retd.map (fun (e : Elem) => ((e : Nat) : Int)) ++ [-6] ++ c.oscr.map cmdKey ++ [-7] ++
  (c.tscr.map (fun l => l.map cmdKey ++ [-8])).flatten

def showLbl : Lbl → String
  | .oPush e => s!"owner:call-push({e})" | .oPop => "owner:call-pop" | .oPut e => s!"owner:call-put({e})" | .oClear => "owner:call-clear" | .o => "owner:step" | .flushO => "owner:FLUSH"
  | .tTake p => s!"thief{p}:call-take" | .tPass p e => s!"thief{p}:call-trypass({e})" | .tPeek p => s!"thief{p}:call-peek"
  | .tWTake p => s!"thief{p}:call-wsapi-take" | .tWPeek p => s!"thief{p}:call-wsapi-peek"
  | .tDecide p a => s!"thief{p}:decide({a})" | .t p => s!"thief{p}:step" | .flushT p => s!"thief{p}:FLUSH"

/-- successors: (label, configuration) -/
def Cfg.succ (c : Cfg) : List (Lbl × Cfg) :=
  let s := c.s
  let own : List (Lbl × Cfg) :=
    match s.opc with
    | .idle =>
      (match c.oscr with
       | .push e :: rest => (match step s (.oPush e) with | some s' => [(.oPush e, { c with s := s', oscr := rest })] | none => [])
       | .pop :: rest => (match step s .oPop with | some s' => [(.oPop, { c with s := s', oscr := rest })] | none => [])
       | .clear :: rest => (match step s .oClear with | some s' => [(.oClear, { c with s := s', oscr := rest })] | none => [])
       | .put e :: rest => (match step s (.oPut e) with | some s' => [(.oPut e, { c with s := s', oscr := rest })] | none => [])
       | _ => [])
    | _ => (match step s .o with | some s' => [(.o, { c with s := s' })] | none => [])
  let fo : List (Lbl × Cfg) := match step s .flushO with | some s' => [(.flushO, { c with s := s' })] | none => []
  let th : List (Lbl × Cfg) := ((List.range c.tscr.length).map fun p =>
    let run : List (Lbl × Cfg) :=
      match s.tpc p with
      | .idle =>
        (match c.tscr[p]? with
         | some (.take :: rest) =>
           (match step s (.tTake p) with | some s' => [(.tTake p, { c with s := s', tscr := c.tscr.set p rest })] | none => [])
         | some (.wtake :: rest) =>
           (match step s (.tWTake p) with | some s' => [(.tWTake p, { c with s := s', tscr := c.tscr.set p rest })] | none => [])
         | some (.wpeek :: rest) =>
           (match step s (.tWPeek p) with | some s' => [(.tWPeek p, { c with s := s', tscr := c.tscr.set p rest })] | none => [])
         | some (.peek :: rest) =>
           (match step s (.tPeek p) with | some s' => [(.tPeek p, { c with s := s', tscr := c.tscr.set p rest })] | none => [])
         | some (.pass e :: rest) =>
           (match step s (.tPass p e) with | some s' => [(.tPass p e, { c with s := s', tscr := c.tscr.set p rest })] | none => [])
         | _ => [])
      | .wkd _ _ =>      -- the decision callback: both verdicts are explored
        [true, false].filterMap fun a => (step s (.tDecide p a)).map fun s' => (Lbl.tDecide p a, { c with s := s' })
      | _ => (match step s (.t p) with | some s' => [(.t p, { c with s := s' })] | none => [])
    let fl : List (Lbl × Cfg) := match step s (.flushT p) with | some s' => [(.flushT p, { c with s := s' })] | none => []
    run ++ fl).flatten
  own ++ fo ++ th

/-- a failed spin-lock CAS leaves the configuration unchanged: such self-loops are skipped by the
    visited set.  Terminal = no successor except self-loops. -/
def Cfg.done (c : Cfg) : Bool :=
  c.oscr.isEmpty && c.tscr.all (·.isEmpty) &&
  (match c.s.opc with | .idle => true | .stuck => true | .stuckL => true | .assertFail => true | _ => false) &&
  (List.range c.tscr.length).all (fun p => match c.s.tpc p with | .idle => true | _ => false) &&
  c.s.bufO.isEmpty && (List.range c.tscr.length).all (fun p => (c.s.bufT p).isEmpty)

/-- the property oracle on a terminal configuration: everything inserted is either still in the
    slots `[base, top)` or was returned, exactly once -/
def Cfg.verdict (c : Cfg) : Option String :=
  let s := c.s
  let left := ((List.range (s.top - s.base).toNat).map fun (k : Nat) => s.ptr (s.base + (k : Int)))
  let leftE := left.filterMap id
  let all := leftE ++ s.retd
  if left.any (·.isNone) then some s!"empty slot inside [base,top): base={s.base} top={s.top}"
  else
    match s.ins.find? (fun e => all.count e ≠ 1) with
    | some e => some (if all.count e = 0 then s!"element {e} LOST (inserted, never returned, not in the queue)"
                      else s!"element {e} DUPLICATED ({all.count e} times among returned {s.retd} + left {leftE})")
    | none =>
      match all.find? (fun e => ¬ s.ins.contains e) with
      | some e => some s!"element {e} returned but never inserted"
      | none => none

structure Search where
  seen : Std.HashSet (List Int) := {}
  states : Nat := 0
  bad : Option (String × List Lbl) := none

partial def dfs (limit : Nat) (c : Cfg) (path : List Lbl) (st : Search) : Search :=
  if st.bad.isSome || st.states ≥ limit then st else
  let k := c.key
  if st.seen.contains k then st else
  let st := { st with seen := st.seen.insert k, states := st.states + 1 }
  let st := if c.done then
      match c.verdict with
      | some msg => { st with bad := some (msg, path.reverse) }
      | none => st
    else st
  c.succ.foldl (fun st (l, c') => dfs limit c' (l :: path) st) st

def parseCmds (w : String) : List Cmd :=
  (w.splitOn ",").filterMap fun x =>
    if x == "pop" then some Cmd.pop
    else if x == "clear" then some Cmd.clear
    else if x == "take" then some Cmd.take
    else if x == "peek" then some Cmd.peek
    else if x == "wtake" then some Cmd.wtake
    else if x == "wpeek" then some Cmd.wpeek
    else if x.startsWith "push" then (x.drop 4).toNat?.map Cmd.push
    else if x.startsWith "put" then (x.drop 3).toNat?.map Cmd.put
    else if x.startsWith "pass" then (x.drop 4).toNat?.map Cmd.pass
    else none

def parseCfg (w : String) : FenceCfg :=
  -- up to six characters 0/1: pushRb popFence takeFence unlockFence wtakeFence wpeekFence (missing = 1)
  let b (i : Nat) : Bool := (w.toList.getD i '1') == '1'
  ⟨b 0, b 1, b 2, b 3, b 4, b 5⟩

/-- `drv_wsq tso <size> <fences> <limit> <ownerscript> <thiefscript>*`
    e.g. `tso 4 1011 200000 push1,pop take`; owner commands `pushN`, `pop`, `putN`, `clear`, participant
    commands `take`, `peek`, `wtake` (both verdicts of the callback are explored), `wpeek`, `passN` (one `myth_queue_trypass`; a failed trylock returns without inserting) -/
def runCli (args : List String) : IO UInt32 := do
  match args with
  | size :: fences :: limit :: oscr :: tscrs =>
    let n : Int := size.toInt?.getD 4
    let cfg := parseCfg fences
    let c : Cfg := { s := init cfg n, oscr := parseCmds oscr, tscr := tscrs.map parseCmds }
    let r := dfs (limit.toNat?.getD 100000) c [] {}
    match r.bad with
    | some (msg, path) =>
      IO.println s!"VIOLATION states={r.states} {msg}"
      IO.println ("trace " ++ " ".intercalate (path.map showLbl))
      return 0
    | none =>
      IO.println s!"ok states={r.states} exhausted={decide (r.states < limit.toNat?.getD 100000)}"
      return 0
  | _ =>
    IO.eprintln "usage: drv_wsq tso <size> <fences:4x0/1> <limit> <ownerscript> <thiefscript>*"
    return 2


end Driver.WsqTso

namespace Driver.Wsq

def run (args : List String) : IO UInt32 := do
  match args with
  | ["seq", n] => runSeq (n.toInt?.getD 8)
  | ["accept", n] => runAccept (n.toInt?.getD 8)
  | "tso" :: rest => Driver.WsqTso.runCli rest
  | _ =>
    IO.eprintln "usage: drv_wsq seq <size> | accept <size> | tso <size> <fences> <bound> <scenario>"
    return 2

end Driver.Wsq
