import Driver.Util
/-! `drv_wsq`: stub, to be filled in -/
namespace Driver.Wsq
def run (_args : List String) : IO UInt32 := do
  IO.eprintln "drv_wsq: not implemented"
  return 2
end Driver.Wsq
