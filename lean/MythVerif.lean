import MythVerif.Basic.Upd
import MythVerif.Basic.Run
import MythVerif.Properties.C10
import MythVerif.Properties.C11
