import Driver.Main
